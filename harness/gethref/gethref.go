// Package gethref runs go-ethereum's own state transition over go-ethereum's own
// state database, as the reference for evermint's EVM execution.
package gethref

import (
	"math/big"
	"sort"
	"time"

	"github.com/ethereum/go-ethereum/common"
	"github.com/ethereum/go-ethereum/core"
	"github.com/ethereum/go-ethereum/core/rawdb"
	"github.com/ethereum/go-ethereum/core/state"
	ethtypes "github.com/ethereum/go-ethereum/core/types"
	"github.com/ethereum/go-ethereum/core/vm"
	"github.com/ethereum/go-ethereum/params"
	"github.com/ethereum/go-ethereum/trie"
)

// Account is the EVM-visible state of one account.
type Account struct {
	Nonce   uint64
	Balance *big.Int
	Code    []byte
	Storage map[common.Hash]common.Hash // non-zero values only
}

// Empty reports EIP-161 emptiness (storage ignored, as in Ethereum).
func (a *Account) Empty() bool {
	return a == nil || (a.Nonce == 0 && (a.Balance == nil || a.Balance.Sign() == 0) && len(a.Code) == 0)
}

// State maps addresses to accounts.
type State map[common.Address]*Account

// BlockCtx is the block context handed to both executions.
type BlockCtx struct {
	Coinbase common.Address
	GasLimit uint64
	Number   int64
	Time     int64
	BaseFee  *big.Int
	Hashes   map[int64][]byte
}

// Features seen by the reference tracer (used for non-triviality labels).
type Features struct {
	Calls, Creates, SelfDestructs, SubReverts, SubFailures, Sstores, Logs int
	MaxDepth                                                         int
	RefundSeen                                                       bool
	Created                                                          []common.Address
}

// Result of the reference execution.
type Result struct {
	Err      error // consensus error (tx not applicable)
	VMErr    error
	Ret      []byte
	GasUsed  uint64
	Refund   uint64 // refund counter before capping
	Logs     []*ethtypes.Log
	Post     State
	Features Features
}

type tracer struct {
	f     *Features
	depth int
}

func (t *tracer) CaptureTxStart(uint64) {}
func (t *tracer) CaptureTxEnd(uint64)   {}
func (t *tracer) CaptureStart(env *vm.EVM, from, to common.Address, create bool, input []byte, gas uint64, value *big.Int) {
	if create {
		t.f.Creates++
		t.f.Created = append(t.f.Created, to)
	}
}
func (t *tracer) CaptureEnd(output []byte, gasUsed uint64, d time.Duration, err error) {}
func (t *tracer) CaptureEnter(typ vm.OpCode, from, to common.Address, input []byte, gas uint64, value *big.Int) {
	t.depth++
	if t.depth > t.f.MaxDepth {
		t.f.MaxDepth = t.depth
	}
	switch typ {
	case vm.CREATE, vm.CREATE2:
		t.f.Creates++
		t.f.Created = append(t.f.Created, to)
	case vm.SELFDESTRUCT:
		t.f.SelfDestructs++
	default:
		t.f.Calls++
	}
}
func (t *tracer) CaptureExit(output []byte, gasUsed uint64, err error) {
	t.depth--
	if err != nil {
		if err == vm.ErrExecutionReverted {
			t.f.SubReverts++
		} else {
			t.f.SubFailures++
		}
	}
}
func (t *tracer) CaptureState(pc uint64, op vm.OpCode, gas, cost uint64, scope *vm.ScopeContext, rData []byte, depth int, err error) {
	switch op {
	case vm.SSTORE:
		t.f.Sstores++
	case vm.LOG0, vm.LOG1, vm.LOG2, vm.LOG3, vm.LOG4:
		t.f.Logs++
	}
}
func (t *tracer) CaptureFault(pc uint64, op vm.OpCode, gas, cost uint64, scope *vm.ScopeContext, depth int, err error) {
}

// warmDB lets the harness pre-warm extra addresses (permitted differences / known findings).
type warmDB struct {
	*state.StateDB
	extra []common.Address
}

func (w *warmDB) PrepareAccessList(sender common.Address, dst *common.Address, precompiles []common.Address, list ethtypes.AccessList) {
	w.StateDB.PrepareAccessList(sender, dst, precompiles, list)
	for _, a := range w.extra {
		w.StateDB.AddAddressToAccessList(a)
	}
}

// Apply runs go-ethereum's core.ApplyMessage on a fresh state built from pre.
// extraWarm lists addresses that are additionally warm at the start of execution.
func Apply(pre State, bc BlockCtx, cfg *params.ChainConfig, extraEIPs []int, msg core.Message, extraWarm []common.Address) (res Result) {
	db := state.NewDatabaseWithConfig(rawdb.NewMemoryDatabase(), &trie.Config{Preimages: true})
	sdb, err := state.New(common.Hash{}, db, nil)
	if err != nil {
		panic(err)
	}
	for addr, a := range pre {
		if a.Empty() && len(a.Storage) == 0 {
			continue // Ethereum state cannot hold empty accounts
		}
		sdb.CreateAccount(addr)
		sdb.SetNonce(addr, a.Nonce)
		if a.Balance != nil {
			sdb.SetBalance(addr, new(big.Int).Set(a.Balance))
		}
		if len(a.Code) > 0 {
			sdb.SetCode(addr, a.Code)
		}
		for k, v := range a.Storage {
			sdb.SetState(addr, k, v)
		}
	}
	root, err := sdb.Commit(false)
	if err != nil {
		panic(err)
	}
	sdb, err = state.New(root, db, nil)
	if err != nil {
		panic(err)
	}

	feat := &Features{}
	blockCtx := vm.BlockContext{
		CanTransfer: core.CanTransfer,
		Transfer:    core.Transfer,
		GetHash: func(n uint64) common.Hash {
			if h, ok := bc.Hashes[int64(n)]; ok {
				return common.BytesToHash(h)
			}
			return common.Hash{}
		},
		Coinbase:    bc.Coinbase,
		GasLimit:    bc.GasLimit,
		BlockNumber: big.NewInt(bc.Number),
		Time:        big.NewInt(bc.Time),
		Difficulty:  big.NewInt(0),
		BaseFee:     bc.BaseFee,
	}
	var wrapped vm.StateDB = sdb
	if len(extraWarm) > 0 {
		wrapped = &warmDB{StateDB: sdb, extra: extraWarm}
	}
	evm := vm.NewEVM(blockCtx, core.NewEVMTxContext(msg), wrapped, cfg, vm.Config{Debug: true, Tracer: &tracer{f: feat}, ExtraEips: extraEIPs})
	gp := new(core.GasPool).AddGas(msg.Gas())
	sdb.Prepare(common.Hash{1}, 0)
	er, err := core.ApplyMessage(evm, msg, gp)
	res.Features = *feat
	if err != nil {
		res.Err = err
		return res
	}
	res.VMErr = er.Err
	res.Ret = er.ReturnData
	res.GasUsed = er.UsedGas
	res.Refund = sdb.GetRefund()
	res.Features.RefundSeen = res.Refund > 0
	res.Logs = sdb.GetLogs(common.Hash{1}, common.Hash{})
	sdb.Finalise(true)
	root, err = sdb.Commit(true)
	if err != nil {
		panic(err)
	}
	sdb2, err := state.New(root, db, nil)
	if err != nil {
		panic(err)
	}
	dump := sdb2.RawDump(&state.DumpConfig{})
	res.Post = State{}
	for addr, da := range dump.Accounts {
		bal, _ := new(big.Int).SetString(da.Balance, 10)
		acc := &Account{Nonce: da.Nonce, Balance: bal, Code: da.Code, Storage: map[common.Hash]common.Hash{}}
		for k, v := range da.Storage {
			acc.Storage[k] = common.HexToHash(v)
		}
		res.Post[addr] = acc
	}
	return res
}

// SortedAddrs returns the union of address sets, sorted.
func SortedAddrs(sets ...State) []common.Address {
	m := map[common.Address]bool{}
	for _, s := range sets {
		for a := range s {
			m[a] = true
		}
	}
	out := make([]common.Address, 0, len(m))
	for a := range m {
		out = append(out, a)
	}
	sort.Slice(out, func(i, j int) bool { return string(out[i][:]) < string(out[j][:]) })
	return out
}

package props

import (
	"encoding/hex"
	"strconv"
	"strings"
	"testing"

	"github.com/ethereum/go-ethereum/common"
	ethtypes "github.com/ethereum/go-ethereum/core/types"
	"github.com/ethereum/go-ethereum/crypto"
	"pgregory.net/rapid"

	"verif/harness/chain"
	"verif/harness/evmgen"
)

// C13 — Per-block receipts, indices, cumulative gas and bloom are mutually consistent.

type c13Case struct {
	World  chain.World `json:"world"`
	Blocks []BlockPlan `json:"blocks"`
}

// addLoggers appends k contracts that emit a fixed number of logs (and one that logs then reverts).
func addLoggers(t *rapid.T, w *chain.World) []string {
	var addrs []string
	n := rapid.IntRange(1, 3).Draw(t, "nloggers")
	for i := 0; i < n; i++ {
		var p evmgen.Program
		for k := rapid.IntRange(1, 6).Draw(t, "nlogs"); k > 0; k-- {
			p = append(p, evmgen.Stmt{Op: "log", N: uint64(rapid.IntRange(0, 4).Draw(t, "topics")), M: uint64(rapid.IntRange(0, 40).Draw(t, "len"))})
		}
		if rapid.IntRange(0, 4).Draw(t, "logthenrevert") == 4 {
			p = append(p, evmgen.Stmt{Op: "revert"})
		}
		addr := poolAddr(len(w.Contracts))
		w.Contracts = append(w.Contracts, chain.GenContract{Addr: addr, Code: evmgen.CompileHex(p), Nonce: 1})
		addrs = append(addrs, addr)
	}
	return addrs
}

func genC13(t *rapid.T) c13Case {
	cfg := worldCfg{ModAddrs: true}
	w := genEvmWorld(t, cfg)
	loggers := addLoggers(t, &w)
	if rapid.IntRange(0, 5).Draw(t, "smallblock") == 5 {
		w.MaxGas = rapid.Int64Range(100000, 2000000).Draw(t, "maxgas")
	}
	nb := rapid.IntRange(1, 2).Draw(t, "nblocks")
	var blocks []BlockPlan
	for b := 0; b < nb; b++ {
		bp := BlockPlan{Dt: rapid.Int64Range(0, 20).Draw(t, "dt"), Proposer: rapid.IntRange(0, 2).Draw(t, "proposer")}
		for n := rapid.IntRange(0, 10).Draw(t, "ntx"); n > 0; n-- {
			switch rapid.IntRange(0, 9).Draw(t, "txk") {
			case 9:
				bp.Txs = append(bp.Txs, genBankPlan(t))
			case 0, 1, 2, 3:
				p := genEthPlan(t, w, cfg, false)
				p.To, p.Data, p.Value = loggers[rapid.IntRange(0, len(loggers)-1).Draw(t, "logger")], "", "0"
				if p.Gas < 100000 {
					p.Gas = 100000
				}
				bp.Txs = append(bp.Txs, p)
			default:
				bp.Txs = append(bp.Txs, genEthPlan(t, w, cfg, true))
			}
		}
		blocks = append(blocks, bp)
	}
	return c13Case{World: w, Blocks: blocks}
}

func runC13(cs c13Case) *Outcome {
	o := &Outcome{}
	c, err := chain.NewStarted(cs.World, chain.NodeOpts{})
	if err != nil {
		o.Excluded = "world rejected: " + err.Error()
		return o
	}
	defer c.Close()
	recs := runBlockPlans(c, cs.Blocks, nil)
	for bi, br := range recs {
		if br.Err != nil {
			o.dev("", "block %d failed: %v", bi, br.Err)
			return o
		}
		var ethIdx, logCount, running uint64
		var union ethtypes.Bloom
		withLogs, failedBetween, sawSuccess, sawFailAfterSuccess := 0, false, false, false
		for ti, tr := range br.Txs {
			if tr.Res == nil {
				o.dev("", "b%d t%d: no result", bi, ti)
				continue
			}
			tx := tr.Built.Eth
			if tr.EthEvent == nil {
				if tr.Receipt != nil {
					o.dev("", "b%d t%d: receipt event without ethereum_tx event", bi, ti)
				}
				continue // not an Ethereum tx that reached execution
			}
			if tx == nil {
				o.dev("", "b%d t%d: ethereum_tx event on a non-Ethereum tx", bi, ti)
				continue
			}
			// numbering in both events
			idxStr, _ := attr(*tr.EthEvent, "txIndex")
			if idxStr != strconv.FormatUint(ethIdx, 10) {
				o.dev("", "b%d t%d: ethereum_tx txIndex=%s, expected %d", bi, ti, idxStr, ethIdx)
			}
			if h, _ := attr(*tr.EthEvent, "ethereumTxHash"); h != tx.Hash().Hex() {
				o.dev("", "b%d t%d: ethereum_tx hash %s != %s", bi, ti, h, tx.Hash().Hex())
			}
			if tr.Receipt == nil || tr.Res.Code != 0 {
				// failed outside EVM execution: counts gas limit, no receipt
				if tr.Receipt != nil {
					o.dev("", "b%d t%d: failed tx carries a receipt event", bi, ti)
				}
				running += tx.Gas()
				ethIdx++
				if sawSuccess {
					sawFailAfterSuccess = true
				}
				o.label("failed-outside-evm")
				continue
			}
			r := tr.Receipt
			if r.TxIdx != ethIdx {
				o.dev("", "b%d t%d: receipt txIdx=%d, expected %d", bi, ti, r.TxIdx, ethIdx)
			}
			if r.TxHash != tx.Hash().Hex() {
				o.dev("", "b%d t%d: receipt hash %s != %s", bi, ti, r.TxHash, tx.Hash().Hex())
			}
			if r.BlockNumber != strconv.FormatInt(br.Height, 10) {
				o.dev("", "b%d t%d: receipt block number %s != %d", bi, ti, r.BlockNumber, br.Height)
			}
			running += r.GasUsed
			if r.Receipt.CumulativeGasUsed != running {
				o.dev("", "b%d t%d: cumulative gas %d != running sum %d", bi, ti, r.Receipt.CumulativeGasUsed, running)
			}
			if (r.Receipt.Status == ethtypes.ReceiptStatusSuccessful) != !r.HasVMError {
				o.dev("", "b%d t%d: status %d but vm error present=%v (%q)", bi, ti, r.Receipt.Status, r.HasVMError, r.VMError)
			}
			if r.HasVMError && len(r.Receipt.Logs) > 0 {
				o.dev("", "b%d t%d: failed execution kept %d logs", bi, ti, len(r.Receipt.Logs))
			}
			if len(r.Receipt.Logs) > 0 {
				withLogs++
				if r.LogIdx == nil {
					o.dev("", "b%d t%d: receipt with logs has no first log index", bi, ti)
				} else if *r.LogIdx != logCount {
					key := ""
					if *r.LogIdx == 0 {
						key = "D7-log-index-zero"
					}
					o.dev(key, "b%d t%d: first log index %d, expected %d (logs are numbered consecutively across the block)", bi, ti, *r.LogIdx, logCount)
				}
			} else if r.LogIdx != nil {
				o.dev("", "b%d t%d: first log index reported for a receipt without logs", bi, ti)
			}
			logCount += uint64(len(r.Receipt.Logs))
			own := ethtypes.BytesToBloom(ethtypes.LogsBloom(r.Receipt.Logs))
			if r.Receipt.Bloom != own {
				o.dev("", "b%d t%d: receipt bloom does not equal the bloom of its own logs", bi, ti)
			}
			for i := range union {
				union[i] |= own[i]
			}
			// contract address
			wantAddr := ""
			if tx.To() == nil && !r.HasVMError {
				wantAddr = crypto.CreateAddress(tr.Built.Sender, tx.Nonce()).Hex()
			}
			if r.ContractAddr != wantAddr {
				o.dev("", "b%d t%d: contract address %q, expected %q", bi, ti, r.ContractAddr, wantAddr)
			}
			if wantAddr != "" {
				o.label("create-success")
			}
			if r.HasVMError {
				o.label("vmerror")
				if sawSuccess {
					sawFailAfterSuccess = true
				}
			} else {
				o.label("success")
				if sawFailAfterSuccess {
					failedBetween = true
				}
				sawSuccess = true
			}
			ethIdx++
		}
		// block bloom
		bb := findEvents(br.Res.Events, "block_bloom")
		if len(bb) != 1 {
			o.dev("", "b%d: %d block_bloom events", bi, len(bb))
		} else {
			v, _ := attr(bb[0], "bloom")
			want := ""
			if union != (ethtypes.Bloom{}) {
				want = hex.EncodeToString(union.Bytes())
			}
			if !strings.EqualFold(v, want) {
				o.dev("", "b%d: block bloom differs from the union of receipt blooms", bi)
			}
		}
		if withLogs >= 2 || failedBetween {
			o.NonTrivial = true
		}
		if withLogs >= 2 {
			o.label("block:>=2-txs-with-logs")
		}
	}
	_ = common.Address{}
	return o
}

func TestC13(t *testing.T) { runProp(t, "C13", genC13, runC13) }

package props

import (
	"sort"

	"encoding/hex"
	gethabi "github.com/ethereum/go-ethereum/accounts/abi"
	"math/big"

	"github.com/ethereum/go-ethereum/common"
	"github.com/ethereum/go-ethereum/crypto"

	cpcabi "github.com/EscanBE/evermint/v12/x/cpc/abi"
	cpctypes "github.com/EscanBE/evermint/v12/x/cpc/types"
)

// erc20NativeAddr is where the genesis-deployed native ERC-20 precompile lives (first dynamic cpc address).
func erc20NativeAddr() common.Address { return crypto.CreateAddress(cpctypes.CpcModuleAddress, 0) }

func stakingCpcAddr() common.Address { return cpctypes.CpcStakingFixedAddress }
func bech32CpcAddr() common.Address  { return cpctypes.CpcBech32FixedAddress }

func packErc20(method string, args ...interface{}) string {
	bz, err := cpcabi.Erc20CpcInfo.ABI.Pack(method, args...)
	if err != nil {
		panic(err)
	}
	return hex.EncodeToString(bz)
}

func packStaking(method string, args ...interface{}) string {
	bz, err := cpcabi.StakingCpcInfo.ABI.Pack(method, args...)
	if err != nil {
		panic(err)
	}
	return hex.EncodeToString(bz)
}

func packBech32(method string, args ...interface{}) string {
	bz, err := cpcabi.Bech32CpcInfo.ABI.Pack(method, args...)
	if err != nil {
		panic(err)
	}
	return hex.EncodeToString(bz)
}

func bigU(u uint64) *big.Int { return new(big.Int).SetUint64(u) }

func cpcabiErc20() gethabi.ABI   { return cpcabi.Erc20CpcInfo.ABI }
func cpcabiStaking() gethabi.ABI { return cpcabi.StakingCpcInfo.ABI }
func cpcabiBech32() gethabi.ABI  { return cpcabi.Bech32CpcInfo.ABI }

func sortStrings(s []string) { sort.Strings(s) }

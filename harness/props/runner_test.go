package props

import (
	"encoding/json"
	"fmt"
	"os"
	"runtime/debug"
	"strings"
	"testing"

	"pgregory.net/rapid"

	"verif/harness/stats"
)

// Dev is one deviation from a property's oracle. Key names a root cause listed in
// known_findings.json ("" = not attributed to any listed finding).
type Dev struct {
	Key string `json:"key,omitempty"`
	Msg string `json:"msg"`
}

// Outcome is what running one case produced.
type Outcome struct {
	Devs       []Dev
	NonTrivial bool
	Labels     []string
	Excluded   string // non-empty: case was outside the sound domain, nothing compared
}

func (o *Outcome) dev(key, format string, a ...interface{}) {
	o.Devs = append(o.Devs, Dev{Key: key, Msg: fmt.Sprintf(format, a...)})
}

func (o *Outcome) label(l string) { o.Labels = append(o.Labels, l) }

type knownFinding struct {
	Property string `json:"property"`
	Key      string `json:"key"`
	Status   string `json:"status"`
	Commit   string `json:"commit,omitempty"`
	What     string `json:"what"`
}

var knownOpen map[string]knownFinding

var debugLabels = os.Getenv("VERIF_DEBUG_LABELS") != ""

func loadKnown() {
	knownOpen = map[string]knownFinding{}
	p := os.Getenv("VERIF_KNOWN")
	if p == "" {
		p = "/verif/known_findings.json"
	}
	bz, err := os.ReadFile(p)
	if err != nil {
		return
	}
	var f struct {
		Findings []knownFinding `json:"findings"`
	}
	if err := json.Unmarshal(bz, &f); err != nil {
		panic("known_findings.json: " + err.Error())
	}
	for _, k := range f.Findings {
		if k.Status == "open" {
			knownOpen[k.Property+"/"+k.Key] = k
		}
	}
}

func TestMain(m *testing.M) {
	loadKnown()
	code := m.Run()
	stats.Flush()
	os.Exit(code)
}

type failFile struct {
	Property   string          `json:"property"`
	Test       string          `json:"test"`
	Case       json.RawMessage `json:"case"`
	Deviations []Dev           `json:"deviations,omitempty"`
}

func safeRun[C any](run func(C) *Outcome, c C) (o *Outcome) {
	defer func() {
		if r := recover(); r != nil {
			o = &Outcome{}
			o.dev("", "panic escaped the harness: %v\n%s", r, debug.Stack())
		}
	}()
	return run(c)
}

// account records stats for an outcome and returns the violations (deviations not
// attributable to an open known finding).
func account(id string, caseJSON []byte, o *Outcome) []Dev {
	stats.Eval()
	if o.Excluded != "" {
		stats.Excluded(o.Excluded)
		return nil
	}
	for _, l := range o.Labels {
		stats.Label(l)
	}
	if o.NonTrivial {
		stats.NonTrivialCase(stats.Hash(caseJSON))
		stats.Sample("nontrivial", json.RawMessage(caseJSON), 2)
	} else {
		stats.Sample("trivial", json.RawMessage(caseJSON), 1)
	}
	var viol []Dev
	for _, d := range o.Devs {
		if d.Key != "" {
			if k, ok := knownOpen[id+"/"+d.Key]; ok {
				stats.KnownHit(d.Key, k.What)
				continue
			}
		}
		viol = append(viol, d)
	}
	return viol
}

// runProp drives one property: rapid search, or a single replayed case when VERIF_REPLAY is set.
func runProp[C any](t *testing.T, id string, gen func(*rapid.T) C, run func(C) *Outcome) {
	if rp := os.Getenv("VERIF_REPLAY"); rp != "" {
		bz, err := os.ReadFile(rp)
		if err != nil {
			t.Fatalf("replay: %v", err)
		}
		var ff failFile
		if err := json.Unmarshal(bz, &ff); err != nil {
			t.Fatalf("replay: %v", err)
		}
		if ff.Test != "" && ff.Test != t.Name() {
			t.Skipf("replay file is for %s", ff.Test)
		}
		var c C
		if err := json.Unmarshal(ff.Case, &c); err != nil {
			t.Fatalf("replay case: %v", err)
		}
		o := safeRun(run, c)
		viol := account(id, ff.Case, o)
		if len(viol) > 0 {
			t.Fatalf("REPLAY VIOLATION %s:\n%s", id, fmtDevs(viol))
		}
		return
	}
	rapid.Check(t, func(rt *rapid.T) {
		c := gen(rt)
		caseJSON, err := json.Marshal(c)
		if err != nil {
			panic(err)
		}
		// the case about to run is left on disk: if the process dies inside it (fatal error, memory exhaustion, a panic in
		// a goroutine of the code under test) the driver still has the input that did it
		if tp := os.Getenv("VERIF_TRACE_CASE"); tp != "" {
			_ = os.WriteFile(tp, caseJSON, 0o644)
		}
		o := safeRun(run, c)
		viol := account(id, caseJSON, o)
		if len(viol) > 0 {
			if fp := os.Getenv("VERIF_FAIL_OUT"); fp != "" {
				bz, _ := json.MarshalIndent(failFile{Property: id, Test: t.Name(), Case: caseJSON, Deviations: viol}, "", " ")
				_ = os.WriteFile(fp, bz, 0o644)
			}
			rt.Fatalf("VIOLATION %s:\n%s", id, fmtDevs(viol))
		}
	})
}

func getenv(k string) string { return os.Getenv(k) }

// writeFail records a failing case found outside rapid (fixed vectors, enumerations) for the driver.
func writeFail(t *testing.T, id string, caseJSON []byte, viol []Dev) {
	if fp := os.Getenv("VERIF_FAIL_OUT"); fp != "" {
		bz, _ := json.MarshalIndent(failFile{Property: id, Test: t.Name(), Case: caseJSON, Deviations: viol}, "", " ")
		_ = os.WriteFile(fp, bz, 0o644)
	}
}

func fmtDevs(ds []Dev) string {
	var sb strings.Builder
	for i, d := range ds {
		if i >= 8 {
			fmt.Fprintf(&sb, "  ... %d more\n", len(ds)-i)
			break
		}
		fmt.Fprintf(&sb, "  [%s] %s\n", d.Key, d.Msg)
	}
	return sb.String()
}

package props

// C11 — the staking precompile acts only for its caller and mirrors native staking.
//
// Two kinds of generated histories (one tx per block, empty blocks for reward accrual):
//
//  mode "twin":   every EOA call to the staking precompile on chain A is replaced on a twin chain B by the native
//                 staking / distribution message(s) it is supposed to mirror (same signer, same fee to the collector);
//                 after every block the raw staking and distribution stores and the pool balances of both chains must
//                 be identical, success must agree, the receipt's Delegate / Undelegate / WithdrawReward logs must match
//                 the module events of the twin's tx one to one, and the view methods must equal the native queries.
//  mode "routes": calls reach the precompile directly, through a CALL forwarder and through a DELEGATECALL forwarder,
//                 plain and signed-message variants, with valid and forged signatures; only records of the immediate
//                 caller may change, and a signed message whose delegator is not both the immediate caller and the
//                 signer recovered for this chain id must fail and change nothing.

import (
	"bytes"
	"encoding/hex"
	"fmt"
	"math/big"
	"sort"
	"strings"
	"testing"

	sdkmath "cosmossdk.io/math"
	abci "github.com/cometbft/cometbft/abci/types"
	sdk "github.com/cosmos/cosmos-sdk/types"
	authtypes "github.com/cosmos/cosmos-sdk/x/auth/types"
	distrkeeper "github.com/cosmos/cosmos-sdk/x/distribution/keeper"
	distrtypes "github.com/cosmos/cosmos-sdk/x/distribution/types"
	stakingtypes "github.com/cosmos/cosmos-sdk/x/staking/types"
	"github.com/ethereum/go-ethereum/common"
	"github.com/ethereum/go-ethereum/crypto"
	"pgregory.net/rapid"

	cpcabi "github.com/EscanBE/evermint/v12/x/cpc/abi"
	cpceip712 "github.com/EscanBE/evermint/v12/x/cpc/eip712"

	"verif/harness/chain"
	"verif/harness/evmgen"
)

type c11Step struct {
	Kind   string `json:"kind"` // delegate | undelegate | redelegate | withdraw | withdrawall | transfer | msg | msgwithdraw | native | empty
	Sender int    `json:"sender"`
	Val    int    `json:"val"`
	Val2   int    `json:"val2"`
	Amt    string `json:"amt"`              // decimal | "all" (whole delegation) | "over" (delegation + 1)
	Action string `json:"action,omitempty"` // msg: Delegate | Undelegate | Redelegate ; native: delegate | undelegate | redelegate | withdraw
	All    bool   `json:"all,omitempty"`    // msgwithdraw: from all validators
	Route  string `json:"route,omitempty"`  // "" direct | call | delegatecall
	Forge  string `json:"forge,omitempty"`  // "" | othersigner | otherchain | tampered | notcaller
	V27    bool   `json:"v27,omitempty"`
	Dt     int64  `json:"dt"`
	Price  int    `json:"price"` // index into c11Prices
}

type c11Case struct {
	Mode  string       `json:"mode"` // twin | routes
	NVals int          `json:"nvals"`
	Multi c11MultiSpec `json:"multi"` // what the multicall contract does between its reads (routes mode)
	Steps []c11Step    `json:"steps"`
}

var c11Prices = []string{"1", "10000000000", "1000000000000"}

const (
	c11Gas       = 2500000
	c11CosmosGas = 2000000
)

func c11Fwd(kind string) common.Address {
	if kind == "delegatecall" {
		return common.HexToAddress(poolAddr(0x71))
	}
	return common.HexToAddress(poolAddr(0x70))
}

// forwarderCodeOp forwards its call data to target with CALL or DELEGATECALL and returns the success flag.
func forwarderCodeOp(target common.Address, delegate bool) string {
	a := evmgen.NewAsm()
	a.Op(evmgen.CALLDATASIZE).PushU(0).PushU(0).Op(evmgen.CALLDATACOPY)
	if delegate {
		a.PushU(0).PushU(0).Op(evmgen.CALLDATASIZE).PushU(0).PushBytes(target.Bytes()).Op(evmgen.GAS).Op(evmgen.DELEGATECALL)
	} else {
		a.PushU(0).PushU(0).Op(evmgen.CALLDATASIZE).PushU(0).PushU(0).PushBytes(target.Bytes()).Op(evmgen.GAS).Op(evmgen.CALL)
	}
	a.PushU(0).Op(evmgen.MSTORE).PushU(32).PushU(0).Op(evmgen.RETURN)
	return hex.EncodeToString(a.Bytes())
}

func c11World(cs c11Case) chain.World {
	w := chain.World{GenesisTime: 1700000000, NumVals: cs.NVals, BaseFee: "0", MinGasPrice: "0", MaxGas: -1, Erc20Native: true, StakingCpc: true, NoInflation: true}
	for i := 0; i < 4; i++ {
		w.Accounts = append(w.Accounts, chain.GenAccount{Key: i, Coins: map[string]string{chain.Denom: "1000000000000000000000000"}})
	}
	w.Contracts = append(w.Contracts,
		chain.GenContract{Addr: c11Fwd("call").Hex(), Code: forwarderCodeOp(stakingCpcAddr(), false), Nonce: 1, Balance: "1000000000000000000000"},
		chain.GenContract{Addr: c11Fwd("delegatecall").Hex(), Code: forwarderCodeOp(stakingCpcAddr(), true), Nonce: 1, Balance: "1000000000000000000000"})
	if cs.Multi.Op != "" {
		w.Contracts = append(w.Contracts, chain.GenContract{Addr: c11Multi().Hex(), Code: c11MultiCode(cs.Multi), Nonce: 1, Balance: "1000000000000000000000"})
	}
	return w
}

func genC11(t *rapid.T) c11Case {
	cs := c11Case{Mode: rapid.SampledFrom([]string{"twin", "twin", "routes"}).Draw(t, "mode"), NVals: rapid.IntRange(3, 4).Draw(t, "nvals")}
	if cs.Mode == "routes" {
		cs.Multi = c11MultiSpec{Op: rapid.SampledFrom([]string{"delegate", "delegate", "undelegate", "redelegate", "withdraw", "none"}).Draw(t, "multiop"), Val: rapid.IntRange(0, cs.NVals-1).Draw(t, "multival"),
			Val2: rapid.IntRange(0, cs.NVals-1).Draw(t, "multival2"), Amt: rapid.SampledFrom([]string{"1000000000000000000", "3000000000000000000", "500000000000000000"}).Draw(t, "multiamt")}
	}
	amts := []string{"1", "1000000000", "1000000000000000000", "3000000000000000000", "25000000000000000000", "all", "all", "over", "0", "2000000000000000000000000"}
	kinds := []string{"delegate", "delegate", "delegate", "undelegate", "undelegate", "redelegate", "redelegate", "withdraw", "withdraw", "withdrawall", "withdrawall", "transfer", "msg", "msg", "msgwithdraw", "native", "empty", "empty"}
	// (sender, validator) pairs delegated earlier in the sequence: later undelegate / redelegate / withdraw steps are
	// steered towards them so that they usually have something to act on
	type pair struct{ sender, val int }
	var delegated []pair
	for n := rapid.IntRange(2, 12).Draw(t, "nsteps"); n > 0; n-- {
		s := c11Step{Kind: rapid.SampledFrom(kinds).Draw(t, "kind"), Sender: rapid.IntRange(0, 2).Draw(t, "sender"), Val: rapid.IntRange(0, cs.NVals-1).Draw(t, "val"),
			Val2: rapid.IntRange(0, cs.NVals-1).Draw(t, "val2"), Amt: rapid.SampledFrom(amts).Draw(t, "amt"), Dt: rapid.Int64Range(1, 60).Draw(t, "dt"),
			Price: rapid.IntRange(0, len(c11Prices)-1).Draw(t, "price"), V27: rapid.Bool().Draw(t, "v27")}
		switch s.Kind {
		case "msg":
			s.Action = rapid.SampledFrom([]string{"Delegate", "Undelegate", "Redelegate"}).Draw(t, "action")
		case "msgwithdraw":
			s.All = rapid.Bool().Draw(t, "all")
		case "native":
			s.Action = rapid.SampledFrom([]string{"delegate", "undelegate", "redelegate", "withdraw"}).Draw(t, "naction")
			s.Sender = rapid.IntRange(0, 3).Draw(t, "nsender")
		case "empty":
			s.Dt = rapid.Int64Range(1, 200).Draw(t, "edt") // may cross the unbonding time (100 s)
		}
		if s.Kind == "msg" || s.Kind == "msgwithdraw" {
			if rapid.IntRange(0, 2).Draw(t, "forged") == 0 {
				s.Forge = rapid.SampledFrom([]string{"othersigner", "otherchain", "tampered", "notcaller"}).Draw(t, "forge")
			}
		}
		// transfer() selects its validator among the caller's delegations: make it common once there are several
		if s.Route == "" && s.Kind != "empty" && s.Kind != "native" {
			vals := map[int]bool{}
			for _, p := range delegated {
				if p.sender == s.Sender {
					vals[p.val] = true
				}
			}
			if len(vals) >= 2 && rapid.IntRange(0, 3).Draw(t, "totransfer") == 0 {
				s.Kind, s.Amt, s.Forge = "transfer", rapid.SampledFrom([]string{"1", "1000000000000000000", "7000000000000000000", "sendmax", "sendmax"}).Draw(t, "tamt"), ""
			}
		}
		needs := s.Kind == "undelegate" || s.Kind == "redelegate" || s.Kind == "withdraw" || (s.Kind == "msg" && s.Action != "Delegate") || s.Kind == "msgwithdraw" ||
			(s.Kind == "native" && s.Action != "delegate")
		if needs && len(delegated) > 0 && rapid.IntRange(0, 3).Draw(t, "usepair") != 0 {
			p := delegated[rapid.IntRange(0, len(delegated)-1).Draw(t, "pair")]
			s.Sender, s.Val = p.sender, p.val
		}
		if s.Kind == "delegate" || (s.Kind == "msg" && s.Action == "Delegate" && s.Forge == "") || (s.Kind == "native" && s.Action == "delegate") {
			if s.Amt == "all" || s.Amt == "over" || s.Amt == "0" {
				s.Amt = "3000000000000000000"
			}
			delegated = append(delegated, pair{s.Sender, s.Val})
		}
		if cs.Mode == "routes" && rapid.IntRange(0, 2).Draw(t, "multicall") == 0 {
			// the multicall contract runs its reads and its state-changing call in one execution
			s.Kind, s.Route, s.Forge = "multicall", "", ""
		}
		if cs.Mode == "routes" && s.Kind != "native" && s.Kind != "empty" && s.Kind != "multicall" {
			s.Route = rapid.SampledFrom([]string{"", "call", "call", "delegatecall", "delegatecall"}).Draw(t, "route")
		}
		cs.Steps = append(cs.Steps, s)
	}
	return cs
}

// ----------------------------------------------------------------------------
// observation

type c11Snap struct {
	Dels    map[string]string // delegator|validator -> shares
	Ubds    map[string]string // delegator|validator -> entries
	Reds    map[string]string // delegator|src|dst -> entries
	Starts  map[string]string // delegator|validator -> starting info
	Bal     map[common.Address]*big.Int
	Rewards map[common.Address]map[string]sdkmath.Int // delegator -> validator (bech32) -> truncated outstanding reward
	Vals    map[string]*big.Int                       // bonded validators: operator -> tokens
	Total   map[common.Address]*big.Int               // delegator -> truncated total outstanding reward (native querier)
}

const c11NUsers = 7 // four EOAs, the two forwarders, the multicall contract

// c11Multi is a contract that, within one execution, reads rewardsOf(self), performs one state-changing staking call,
// then reads rewardsOf / balanceOf / delegationOf again and logs every answer (LOG0, 32 bytes each).
func c11Multi() common.Address { return common.HexToAddress(poolAddr(0x72)) }

type c11MultiSpec struct {
	Op   string `json:"op"` // delegate | undelegate | redelegate | withdraw | none
	Val  int    `json:"val"`
	Val2 int    `json:"val2"`
	Amt  string `json:"amt"`
}

func c11MultiCode(m c11MultiSpec) string {
	st := stakingCpcAddr().Hex()
	self := c11Multi()
	amt, _ := new(big.Int).SetString(m.Amt, 10)
	view := func(data string) evmgen.Stmt { return evmgen.Stmt{Op: "callret", A: st, B: "0", N: 32, Data: data} }
	p := evmgen.Program{view(packStaking("rewardsOf", self))}
	switch m.Op {
	case "delegate":
		p = append(p, evmgen.Stmt{Op: "call", A: st, B: "0", Data: packStaking("delegate", c11ValEth(m.Val), amt)})
	case "undelegate":
		p = append(p, evmgen.Stmt{Op: "call", A: st, B: "0", Data: packStaking("undelegate", c11ValEth(m.Val), amt)})
	case "redelegate":
		p = append(p, evmgen.Stmt{Op: "call", A: st, B: "0", Data: packStaking("redelegate", c11ValEth(m.Val), c11ValEth(m.Val2), amt)})
	case "withdraw":
		p = append(p, evmgen.Stmt{Op: "call", A: st, B: "0", Data: packStaking("withdrawReward", c11ValEth(m.Val))})
	}
	p = append(p, view(packStaking("rewardsOf", self)), view(packStaking("balanceOf", self)), view(packStaking("delegationOf", self, c11ValEth(m.Val))))
	return evmgen.CompileHex(p)
}

var c11Tracked = func() []common.Address {
	var out []common.Address
	for i := 0; i < 4; i++ {
		out = append(out, chain.K(i).Addr)
	}
	out = append(out, c11Fwd("call"), c11Fwd("delegatecall"), c11Multi())
	for _, m := range []string{stakingtypes.BondedPoolName, stakingtypes.NotBondedPoolName, distrtypes.ModuleName} {
		out = append(out, common.BytesToAddress(authtypes.NewModuleAddress(m)))
	}
	return out
}()

func c11Take(c *chain.Chain) func(ctx sdk.Context) interface{} {
	return func(ctx sdk.Context) interface{} {
		s := &c11Snap{Dels: map[string]string{}, Ubds: map[string]string{}, Reds: map[string]string{}, Starts: map[string]string{}, Bal: map[common.Address]*big.Int{}, Rewards: map[common.Address]map[string]sdkmath.Int{}, Vals: map[string]*big.Int{}, Total: map[common.Address]*big.Int{}}
		_ = c.App.StakingKeeper.IterateLastValidators(ctx, func(_ int64, v stakingtypes.ValidatorI) bool {
			if v.IsBonded() {
				s.Vals[v.GetOperator()] = v.GetTokens().BigInt()
			}
			return false
		})
		dels, _ := c.App.StakingKeeper.GetAllDelegations(ctx)
		for _, d := range dels {
			s.Dels[d.DelegatorAddress+"|"+d.ValidatorAddress] = d.Shares.String()
		}
		_ = c.App.StakingKeeper.IterateUnbondingDelegations(ctx, func(_ int64, u stakingtypes.UnbondingDelegation) bool {
			s.Ubds[u.DelegatorAddress+"|"+u.ValidatorAddress] = fmt.Sprint(u.Entries)
			return false
		})
		_ = c.App.StakingKeeper.IterateRedelegations(ctx, func(_ int64, r stakingtypes.Redelegation) bool {
			s.Reds[r.DelegatorAddress+"|"+r.ValidatorSrcAddress+"|"+r.ValidatorDstAddress] = fmt.Sprint(r.Entries)
			return false
		})
		c.App.DistrKeeper.IterateDelegatorStartingInfos(ctx, func(val sdk.ValAddress, del sdk.AccAddress, info distrtypes.DelegatorStartingInfo) bool {
			s.Starts[del.String()+"|"+val.String()] = info.String()
			return false
		})
		for _, a := range c11Tracked {
			s.Bal[a] = c.App.BankKeeper.GetBalance(ctx, a.Bytes(), chain.Denom).Amount.BigInt()
		}
		// outstanding rewards: the querier writes, so it runs on a throw-away branch
		qctx, _ := ctx.CacheContext()
		q := distrkeeper.NewQuerier(c.App.DistrKeeper)
		for _, a := range c11Tracked[:c11NUsers] {
			res, err := q.DelegationTotalRewards(qctx, &distrtypes.QueryDelegationTotalRewardsRequest{DelegatorAddress: sdk.AccAddress(a.Bytes()).String()})
			if err != nil {
				continue
			}
			m := map[string]sdkmath.Int{}
			for _, r := range res.Rewards {
				m[r.ValidatorAddress] = r.Reward.AmountOf(chain.Denom).TruncateInt()
			}
			s.Rewards[a] = m
			s.Total[a] = res.Total.AmountOf(chain.Denom).TruncateInt().BigInt()
		}
		return s
	}
}

// c11TotalRewards returns the native total outstanding reward of the multicall contract before / after the tx.
func c11TotalRewards(_ *chain.Chain, tr *txRecord, before bool) *big.Int {
	s := tr.Post.(*c11Snap)
	if before {
		s = tr.Pre.(*c11Snap)
	}
	return s.Total[c11Multi()]
}

func c11ValAddr(i int) sdk.ValAddress { return chain.ValOperKey(i).Val() }
func c11ValEth(i int) common.Address  { return chain.ValOperKey(i).Addr }

// delegated returns the whole tokens a delegator has with a validator.
func c11Delegated(c *chain.Chain, ctx sdk.Context, del common.Address, val int) *big.Int {
	d, err := c.App.StakingKeeper.GetDelegation(ctx, del.Bytes(), c11ValAddr(val))
	if err != nil {
		return new(big.Int)
	}
	v, err := c.App.StakingKeeper.GetValidator(ctx, c11ValAddr(val))
	if err != nil {
		return new(big.Int)
	}
	return v.TokensFromShares(d.Shares).TruncateInt().BigInt()
}

var minWithdraw = new(big.Int).Exp(big.NewInt(10), big.NewInt(15), nil) // one thousandth of a whole coin (18 decimals)

func c11Amount(c *chain.Chain, ctx sdk.Context, st c11Step, del common.Address) *big.Int {
	switch st.Amt {
	case "all":
		return c11Delegated(c, ctx, del, st.Val)
	case "over":
		return new(big.Int).Add(c11Delegated(c, ctx, del, st.Val), big.NewInt(1))
	case "sendmax":
		// more than the liquid balance, affordable only once the pending rewards have been paid out (a wallet's "send max":
		// what the precompile's balanceOf reports): liquid balance, less the most the tx can cost its sender, plus half of
		// the pending rewards
		liquid := c.App.BankKeeper.GetBalance(ctx, del.Bytes(), chain.Denom).Amount.BigInt()
		if st.Route == "" && st.Kind != "multicall" {
			price, _ := new(big.Int).SetString(c11Prices[st.Price%len(c11Prices)], 10)
			liquid.Sub(liquid, new(big.Int).Mul(price, big.NewInt(c11Gas)))
		}
		if liquid.Sign() < 0 {
			liquid = new(big.Int)
		}
		cctx, _ := ctx.CacheContext()
		rewards := new(big.Int)
		if r, err := distrkeeper.NewQuerier(c.App.DistrKeeper).DelegationTotalRewards(cctx, &distrtypes.QueryDelegationTotalRewardsRequest{DelegatorAddress: sdk.AccAddress(del.Bytes()).String()}); err == nil {
			// only what a withdrawal really pays out: per validator, rewards that reach the precompile's dust threshold
			for _, dr := range r.Rewards {
				if x := dr.Reward.AmountOf(chain.Denom).TruncateInt().BigInt(); x.Cmp(minWithdraw) >= 0 {
					rewards.Add(rewards, x)
				}
			}
		}
		return liquid.Add(liquid, rewards.Rsh(rewards, 1))
	}
	v, _ := new(big.Int).SetString(st.Amt, 10)
	return v
}

func signTyped(tm cpceip712.TypedMessage, chainID int64, key chain.Key, v27 bool) (r, s [32]byte, v uint8) {
	h, err := cpceip712.EIP712HashingTypedMessage(tm, big.NewInt(chainID))
	if err != nil {
		panic(err)
	}
	sig, err := crypto.Sign(h, key.ECDSA)
	if err != nil {
		panic(err)
	}
	copy(r[:], sig[:32])
	copy(s[:], sig[32:64])
	v = sig[64]
	if v27 {
		v += 27
	}
	return
}

// c11Logs renders the staking precompile's logs of a receipt.
func c11Logs(rec *txRecord) []string {
	var out []string
	if rec.Receipt == nil || rec.Receipt.Receipt == nil {
		return out
	}
	names := map[string]string{
		"0x510b11bb3f3c799b11307c01ab7db0d335683ef5b2da98f7697de744f465eacc": "Delegate",
		"0xbda8c0e95802a0e6788c3e9027292382d5a41b86556015f846b03a9874b2b827": "Undelegate",
		"0xad71f93891cecc86a28a627d5495c28fabbd31cdd2e93851b16ce3421fdab2e5": "WithdrawReward",
	}
	for _, l := range rec.Receipt.Receipt.Logs {
		if l.Address != stakingCpcAddr() {
			continue // logs of the calling contracts themselves
		}
		if len(l.Topics) != 3 {
			out = append(out, fmt.Sprintf("?%s/%x", l.Address.Hex(), l.Topics))
			continue
		}
		out = append(out, fmt.Sprintf("%s(%s,%s,%s)", names[l.Topics[0].Hex()], addrHex(common.BytesToAddress(l.Topics[1].Bytes())), addrHex(common.BytesToAddress(l.Topics[2].Bytes())), new(big.Int).SetBytes(l.Data)))
	}
	return out
}

// c11ExpectedLogs derives, from the module events of the twin's native tx, the logs the precompile must emit.
func c11ExpectedLogs(evs []abci.Event, delegator common.Address) []string {
	var out []string
	val := func(s string) string {
		v, err := sdk.ValAddressFromBech32(s)
		if err != nil {
			return "?"
		}
		return addrHex(common.BytesToAddress(v))
	}
	amt := func(s string) *big.Int {
		cs, err := sdk.ParseCoinsNormalized(s)
		if err != nil {
			return new(big.Int)
		}
		return cs.AmountOf(chain.Denom).BigInt()
	}
	d := addrHex(delegator)
	for _, e := range evs {
		a := map[string]string{}
		for _, x := range e.Attributes {
			a[x.Key] = x.Value
		}
		switch e.Type {
		case stakingtypes.EventTypeDelegate:
			if v := amt(a["amount"]); v.Sign() > 0 {
				out = append(out, fmt.Sprintf("Delegate(%s,%s,%s)", d, val(a["validator"]), v))
			}
		case stakingtypes.EventTypeUnbond:
			if v := amt(a["amount"]); v.Sign() > 0 {
				out = append(out, fmt.Sprintf("Undelegate(%s,%s,%s)", d, val(a["validator"]), v))
			}
		case stakingtypes.EventTypeRedelegate:
			if v := amt(a["amount"]); v.Sign() > 0 {
				out = append(out, fmt.Sprintf("Undelegate(%s,%s,%s)", d, val(a["source_validator"]), v), fmt.Sprintf("Delegate(%s,%s,%s)", d, val(a["destination_validator"]), v))
			}
		case distrtypes.EventTypeWithdrawRewards:
			if v := amt(a["amount"]); v.Sign() > 0 {
				out = append(out, fmt.Sprintf("WithdrawReward(%s,%s,%s)", d, val(a["validator"]), v))
			}
		}
	}
	return out
}

func runC11(cs c11Case) *Outcome {
	o := &Outcome{}
	w := c11World(cs)
	a, err := chain.NewStarted(w, chain.NodeOpts{})
	if err != nil {
		o.dev("", "world rejected: %v", err)
		return o
	}
	defer a.Close()
	var b *chain.Chain
	if cs.Mode == "twin" {
		if b, err = chain.NewStarted(w, chain.NodeOpts{}); err != nil {
			o.dev("", "twin rejected: %v", err)
			return o
		}
		defer b.Close()
	}
	o.label("mode:" + cs.Mode)
	takeA := c11Take(a)
	stateChanging := 0
	special := false

	for si, st := range cs.Steps {
		ctxA := a.CommittedCtx()
		if a.Height == 0 {
			ctxA = a.PendingCtx()
		}
		price, _ := new(big.Int).SetString(c11Prices[st.Price%len(c11Prices)], 10)
		fee := new(big.Int).Mul(price, big.NewInt(c11Gas))
		sender := chain.K(st.Sender)
		caller := sender.Addr
		if st.Route != "" {
			caller = c11Fwd(st.Route)
		}
		if st.Kind == "multicall" {
			caller = c11Multi()
		}

		if st.Kind == "empty" {
			if _, err := a.RunBlock(chain.Block{Dt: st.Dt}); err != nil {
				o.dev("", "step %d: empty block failed: %v", si, err)
				return o
			}
			if b != nil {
				if _, err := b.RunBlock(chain.Block{Dt: st.Dt}); err != nil {
					o.dev("", "step %d: twin empty block failed: %v", si, err)
					return o
				}
			}
			continue
		}

		// ---- native messages that mirror the step (also what a "native" step submits on both chains)
		del := sdk.AccAddress(sender.Addr.Bytes()).String()
		nativeFor := func(kind string, amount *big.Int, pre *c11Snap) []sdk.Msg {
			if amount == nil {
				amount = new(big.Int)
			}
			coin := sdk.Coin{Denom: chain.Denom, Amount: sdkmath.NewIntFromBigInt(amount)}
			switch kind {
			case "delegate":
				return []sdk.Msg{&stakingtypes.MsgDelegate{DelegatorAddress: del, ValidatorAddress: c11ValAddr(st.Val).String(), Amount: coin}}
			case "undelegate":
				return []sdk.Msg{&stakingtypes.MsgUndelegate{DelegatorAddress: del, ValidatorAddress: c11ValAddr(st.Val).String(), Amount: coin}}
			case "redelegate":
				return []sdk.Msg{&stakingtypes.MsgBeginRedelegate{DelegatorAddress: del, ValidatorSrcAddress: c11ValAddr(st.Val).String(), ValidatorDstAddress: c11ValAddr(st.Val2).String(), Amount: coin}}
			case "withdraw":
				return []sdk.Msg{&distrtypes.MsgWithdrawDelegatorReward{DelegatorAddress: del, ValidatorAddress: c11ValAddr(st.Val).String()}}
			case "withdrawall":
				// one native withdrawal per validator whose outstanding reward reaches the precompile's dust threshold
				var msgs []sdk.Msg
				if pre != nil {
					// in the order the delegations are stored (by validator address bytes), as every native
					// "withdraw all" client submits them
					rw := pre.Rewards[sender.Addr]
					vals := sortedKeys(rw)
					sort.Slice(vals, func(i, j int) bool {
						x, _ := sdk.ValAddressFromBech32(vals[i])
						y, _ := sdk.ValAddressFromBech32(vals[j])
						return bytes.Compare(x, y) < 0
					})
					for _, v := range vals {
						if rw[v].BigInt().Cmp(minWithdraw) >= 0 {
							msgs = append(msgs, &distrtypes.MsgWithdrawDelegatorReward{DelegatorAddress: del, ValidatorAddress: v})
						}
					}
				}
				return msgs
			}
			return nil
		}

		// ---- build A's tx
		var data string
		var mirror string // native kind mirrored by this step
		amount := c11Amount(a, ctxA, st, caller)
		expectFail := false
		switch st.Kind {
		case "delegate":
			data, mirror = packStaking("delegate", c11ValEth(st.Val), amount), "delegate"
		case "undelegate":
			data, mirror = packStaking("undelegate", c11ValEth(st.Val), amount), "undelegate"
		case "redelegate":
			data, mirror = packStaking("redelegate", c11ValEth(st.Val), c11ValEth(st.Val2), amount), "redelegate"
		case "withdraw":
			data, mirror = packStaking("withdrawReward", c11ValEth(st.Val)), "withdraw"
		case "withdrawall":
			data, mirror = packStaking("withdrawRewards"), "withdrawall"
		case "transfer":
			data, mirror = packStaking("transfer", caller, amount), "transfer"
		case "multicall":
			data = ""
		case "msg", "msgwithdraw":
			// the message names a delegator; valid only if delegator == immediate caller == recovered signer (this chain id)
			msgDelegator := sender.Addr
			signer := sender
			chainID := int64(chain.EIP155ID)
			switch st.Forge {
			case "othersigner":
				signer = chain.K((st.Sender + 1) % 4) // never the sender itself
			case "otherchain":
				chainID = 9000
			case "notcaller":
				other := chain.K((st.Sender + 1) % 4)
				msgDelegator, signer = other.Addr, other // perfectly signed by another key, but submitted by the sender
			}
			if st.Kind == "msg" {
				m := cpcabi.StakingMessage{Action: st.Action, Delegator: msgDelegator, Validator: c11ValAddr(st.Val).String(), Amount: amount, Denom: chain.Denom, OldValidator: "-"}
				mirror = strings.ToLower(st.Action)
				if st.Action == "Redelegate" {
					// the message's validator is the destination
					m.Validator, m.OldValidator = c11ValAddr(st.Val2).String(), c11ValAddr(st.Val).String()
				}
				r, s, v := signTyped(m, chainID, signer, st.V27)
				if st.Forge == "tampered" {
					m.Amount = new(big.Int).Add(m.Amount, big.NewInt(1))
				}
				data = packStaking("delegateByActionMessage", m, r, s, v)
			} else {
				m := cpcabi.WithdrawRewardMessage{Delegator: msgDelegator, FromValidator: c11ValAddr(st.Val).String()}
				mirror = "withdraw"
				if st.All {
					m.FromValidator, mirror = "all", "withdrawall"
				}
				r, s, v := signTyped(m, chainID, signer, st.V27)
				if st.Forge == "tampered" {
					m.FromValidator = c11ValAddr((st.Val + 1) % cs.NVals).String()
					if st.All {
						m.FromValidator = c11ValAddr(st.Val).String()
					}
				}
				data = packStaking("withdrawRewardsByMessage", m, r, s, v)
			}
			// through a contract the immediate caller is the contract, which can never be the signer
			if st.Forge != "" || st.Route != "" {
				expectFail = true
			}
		}

		var txA []byte
		if st.Kind == "native" {
			msgs := nativeFor(st.Action, c11Amount(a, ctxA, st, sender.Addr), nil)
			accNum, seq, _ := a.AccountInfo(ctxA, sender.Acc())
			txA, err = chain.CosmosTx{Signer: st.Sender, Msgs: msgs, Gas: c11CosmosGas, FeeAmount: fee.String()}.Build(a.TxCfg, a.World.CID(), accNum, seq)
		} else {
			_, seq, _ := a.AccountInfo(ctxA, sender.Acc())
			to := stakingCpcAddr()
			if st.Route != "" {
				to = c11Fwd(st.Route)
			}
			if st.Kind == "multicall" {
				to = c11Multi()
			}
			txA, _, err = chain.EthTx{From: st.Sender, Type: 0, Nonce: seq, Gas: c11Gas, GasPrice: price.String(), To: to.Hex(), Data: data}.Build(a.TxCfg)
		}
		if err != nil {
			o.label("unbuildable")
			continue
		}
		recA := execBlock(a, blockRecord{}, st.Dt, 0, [][]byte{txA}, takeA)
		if recA.Err != nil {
			o.dev("", "step %d (%+v): block failed: %v", si, st, recA.Err)
			return o
		}
		tr := &recA.Txs[0]
		if tr.Pre == nil || tr.Post == nil {
			o.label("tx-not-observed")
			continue
		}
		pre, post := tr.Pre.(*c11Snap), tr.Post.(*c11Snap)
		okA := tr.Res.Code == 0 && (tr.Receipt == nil || !tr.Receipt.HasVMError)
		if st.Kind != "native" && tr.Receipt == nil {
			okA = false
		}
		// through a forwarder the outer tx succeeds even if the inner call failed: success = the precompile's effect
		logs := c11Logs(tr)
		o.label("step:" + st.Kind)
		if st.Route != "" {
			o.label("route:" + st.Route)
			special = true
		}
		if st.Forge != "" {
			o.label("forge:" + st.Forge)
			special = true
		}

		// ---- (c) caller-only: records of anybody but the immediate caller are untouched
		callerAcc := sdk.AccAddress(caller.Bytes()).String()
		if st.Kind == "native" {
			callerAcc = del
		}
		changed := false
		for name, pair := range map[string][2]map[string]string{"delegation": {pre.Dels, post.Dels}, "unbonding delegation": {pre.Ubds, post.Ubds}, "redelegation": {pre.Reds, post.Reds}, "reward starting info": {pre.Starts, post.Starts}} {
			keys := map[string]bool{}
			for k := range pair[0] {
				keys[k] = true
			}
			for k := range pair[1] {
				keys[k] = true
			}
			for _, k := range sortedKeys(keys) {
				if pair[0][k] == pair[1][k] {
					continue
				}
				changed = true
				if !strings.HasPrefix(k, callerAcc+"|") {
					o.dev("", "step %d (%+v): %s %s changed although the immediate caller is %s", si, st, name, k, callerAcc)
				}
			}
		}
		for _, addr := range c11Tracked[:c11NUsers] {
			if addr == caller || addr == sender.Addr {
				continue
			}
			if pre.Bal[addr].Cmp(post.Bal[addr]) != 0 {
				o.dev("", "step %d (%+v): balance of bystander %s changed %s -> %s", si, st, addr.Hex(), pre.Bal[addr], post.Bal[addr])
			}
		}
		// the tx sender who is not the immediate caller only pays the fee
		if caller != sender.Addr && st.Kind != "native" && tr.admitted() {
			gasUsed := uint64(0)
			if tr.Receipt != nil {
				gasUsed = tr.Receipt.GasUsed
			}
			want := new(big.Int).Sub(pre.Bal[sender.Addr], new(big.Int).Mul(price, new(big.Int).SetUint64(gasUsed)))
			if tr.Receipt != nil && post.Bal[sender.Addr].Cmp(want) != 0 {
				o.dev("", "step %d (%+v): tx sender (not the immediate caller) balance %s -> %s, expected %s (fee only)", si, st, pre.Bal[sender.Addr], post.Bal[sender.Addr], want)
			}
		}
		if changed {
			stateChanging++
			o.label("effect:" + st.Kind)
			if (st.Kind == "msg" || st.Kind == "msgwithdraw") && !expectFail {
				o.label("signed-message-accepted")
			}
		} else if st.Kind != "native" {
			o.label("no-effect:" + st.Kind)
		}
		// ---- (d) a message that is not authorised by caller == delegator == signer changes nothing
		if expectFail {
			if changed || len(logs) > 0 {
				o.dev("", "step %d (%+v): signed message not authorised by the immediate caller took effect (logs %v)", si, st, logs)
			}
			for _, addr := range c11Tracked[c11NUsers:] {
				if pre.Bal[addr].Cmp(post.Bal[addr]) != 0 {
					o.dev("", "step %d (%+v): pool balance %s moved by an unauthorised signed message", si, st, addr.Hex())
				}
			}
			o.label("unauthorised-message-refused")
		}
		// every log names the immediate caller as delegator
		for _, l := range logs {
			if !strings.Contains(l, "("+addrHex(caller)+",") {
				o.dev("", "step %d (%+v): log %s does not name the immediate caller %s", si, st, l, addrHex(caller))
			}
		}

		// ---- (e') views inside one execution: what the contract read after its own state-changing call equals the native
		// numbers of the state right after the tx; what it read first equals those of the state right before
		if st.Kind == "multicall" && tr.Receipt != nil && tr.Receipt.Receipt != nil && !tr.Receipt.HasVMError {
			var reads []*big.Int
			for _, l := range tr.Receipt.Receipt.Logs {
				if l.Address == c11Multi() && len(l.Topics) == 0 && len(l.Data) == 32 {
					reads = append(reads, new(big.Int).SetBytes(l.Data))
				}
			}
			total := func(s *c11Snap) *big.Int {
				sum := new(big.Int)
				for _, v := range s.Rewards[c11Multi()] {
					sum.Add(sum, v.BigInt())
				}
				return sum
			}
			if len(reads) == 4 {
				o.label("multicall-reads-compared")
				special = true
				// note: per-validator truncation: the native total truncates the sum, rewardsOf truncates the sum as well;
				// compare against the native querier's total on the same states
				preTot, postTot := c11TotalRewards(a, tr, true), c11TotalRewards(a, tr, false)
				_ = total
				if preTot != nil && reads[0].Cmp(preTot) != 0 {
					o.dev("", "step %d (%+v): first rewardsOf inside the execution = %s, native query before the tx %s", si, st, reads[0], preTot)
				}
				if postTot != nil && reads[1].Cmp(postTot) != 0 {
					o.dev("", "step %d (%+v): rewardsOf read after the contract's own %s = %s, native query on the resulting state %s", si, st, cs.Multi.Op, reads[1], postTot)
				}
				if postTot != nil {
					if want := new(big.Int).Add(post.Bal[c11Multi()], postTot); reads[2].Cmp(want) != 0 {
						o.dev("", "step %d (%+v): balanceOf read after the contract's own %s = %s, balance + native rewards %s", si, st, cs.Multi.Op, reads[2], want)
					}
				}
			}
		}

		// ---- (a)+(b) twin
		if b != nil {
			ctxB := b.CommittedCtx()
			if b.Height == 0 {
				ctxB = b.PendingCtx()
			}
			var msgs []sdk.Msg
			twinAmount := c11Amount(b, ctxB, st, sender.Addr)
			switch {
			case st.Kind == "native":
				msgs = nativeFor(st.Action, twinAmount, nil)
			case expectFail:
				msgs = nil
			case mirror == "transfer":
				// withdraw everything above the dust threshold, then delegate to the validator the documented rule selects
				msgs = nativeFor("withdrawall", nil, pre)
				if v := c11TransferTarget(pre, sender.Addr); v != "" {
					msgs = append(msgs, &stakingtypes.MsgDelegate{DelegatorAddress: del, ValidatorAddress: v, Amount: sdk.NewCoin(chain.Denom, sdkmath.NewIntFromBigInt(twinAmount))})
				}
			default:
				msgs = nativeFor(mirror, twinAmount, pre)
			}
			filler := false
			if len(msgs) == 0 {
				// nothing to mirror (refused message, nothing to withdraw): an equal-fee no-op keeps the fee flows identical
				msgs, filler = []sdk.Msg{bankSend(sender.Acc(), sender.Acc(), sdk.NewCoins(sdk.NewCoin(chain.Denom, sdkmath.NewInt(1))))}, true
			}
			// the twin pays exactly what the fee collector received on A: gas used x price for an executed Ethereum tx
			// (the unused part is returned out of the collected fee), the whole fee otherwise
			feeB := fee
			if st.Kind != "native" && tr.Receipt != nil {
				feeB = new(big.Int).Mul(price, new(big.Int).SetUint64(tr.Receipt.GasUsed))
			}
			accNum, seq, _ := b.AccountInfo(ctxB, sender.Acc())
			txB, err := chain.CosmosTx{Signer: st.Sender, Msgs: msgs, Gas: c11CosmosGas, FeeAmount: feeB.String()}.Build(b.TxCfg, b.World.CID(), accNum, seq)
			if err != nil {
				o.dev("", "step %d: cannot build the twin tx: %v", si, err)
				return o
			}
			recB := execBlock(b, blockRecord{}, st.Dt, 0, [][]byte{txB}, nil)
			if recB.Err != nil {
				o.dev("", "step %d (%+v): twin block failed: %v", si, st, recB.Err)
				return o
			}
			okB := recB.Txs[0].Res.Code == 0
			if st.Kind != "native" && !filler && okA != okB {
				o.dev("", "step %d (%+v): precompile call success=%v but the native message(s) success=%v (%s / %s)", si, st, okA, okB, truncS(tr.Res.Log, 120), truncS(recB.Txs[0].Res.Log, 160))
			}
			da, db := a.Dump(a.CommittedCtx()), b.Dump(b.CommittedCtx())
			{
				// staking state byte for byte; historical-info records embed the block header (app hash of the whole
				// application) and are not staking state
				strip := func(kvs []chain.KV) []chain.KV {
					var out []chain.KV
					for _, kv := range kvs {
						if len(kv.K) > 0 && kv.K[0] == 0x50 {
							continue
						}
						out = append(out, kv)
					}
					return out
				}
				if diff := chain.Diff(chain.StoreDump{"staking": strip(da["staking"])}, chain.StoreDump{"staking": strip(db["staking"])}); len(diff) > 0 {
					o.dev("", "step %d (%+v): staking store differs from the native twin in %d keys, first: %s", si, st, len(diff), truncS(diff[0].String(), 300))
					return o
				}
				// rewards: what the distribution module owes to whom, and the module's records byte for byte
				va, vb := c11DistrView(a, cs.NVals), c11DistrView(b, cs.NVals)
				if ks := diffView(va, vb); len(ks) > 0 {
					o.dev("", "step %d (%+v): rewards differ from the native twin in %d entries, first: %s = %s vs %s", si, st, len(ks), ks[0], va[ks[0]], vb[ks[0]])
					return o
				}
				if diff := chain.Diff(chain.StoreDump{"distribution": da["distribution"]}, chain.StoreDump{"distribution": db["distribution"]}); len(diff) > 0 {
					o.dev("", "step %d (%+v): distribution store differs from the native twin in %d keys, first: %s", si, st, len(diff), truncS(diff[0].String(), 300))
					return o
				}
			}
			for _, addr := range c11Tracked[c11NUsers:] {
				x := a.App.BankKeeper.GetBalance(a.CommittedCtx(), addr.Bytes(), chain.Denom)
				y := b.App.BankKeeper.GetBalance(b.CommittedCtx(), addr.Bytes(), chain.Denom)
				if !x.Equal(y) {
					o.dev("", "step %d (%+v): module account %s holds %s, native twin %s", si, st, addr.Hex(), x, y)
				}
			}
			if st.Kind != "native" && okA && okB && !filler {
				want := c11ExpectedLogs(recB.Txs[0].Res.Events, sender.Addr)
				if strings.Join(want, ";") != strings.Join(logs, ";") {
					o.dev("", "step %d (%+v): receipt logs %v do not match the module events of the native tx %v", si, st, logs, want)
				}
				if len(logs) > 0 {
					o.label("logs-compared")
				}
			}
			if st.Kind != "native" && !okA && len(logs) > 0 {
				o.dev("", "step %d (%+v): failed call left logs %v", si, st, logs)
			}
		}

		// ---- (e) views equal native queries on the committed state
		c11Views(o, a, si, st, cs.NVals)
	}
	o.NonTrivial = stateChanging >= 2 && (special || cs.Mode == "twin")
	return o
}

// c11TransferTarget re-derives the validator transfer() must delegate to, on the state right before the tx:
// no bonded validator delegated to -> the middle one of all bonded validators ordered by (tokens, operator);
// exactly one -> that one; several -> the lowest by (tokens, operator).
func c11TransferTarget(pre *c11Snap, del common.Address) string {
	type vt struct {
		op     string
		tokens *big.Int
	}
	delAcc := sdk.AccAddress(del.Bytes()).String()
	var mine, all []vt
	for _, op := range sortedKeys(pre.Vals) {
		all = append(all, vt{op, pre.Vals[op]})
		if _, ok := pre.Dels[delAcc+"|"+op]; ok {
			mine = append(mine, vt{op, pre.Vals[op]})
		}
	}
	order := func(x []vt) {
		sort.Slice(x, func(i, j int) bool {
			if c := x[i].tokens.Cmp(x[j].tokens); c != 0 {
				return c < 0
			}
			return x[i].op < x[j].op
		})
	}
	switch {
	case len(mine) == 0:
		if len(all) == 0 {
			return ""
		}
		order(all)
		return all[len(all)/2].op
	case len(mine) == 1:
		return mine[0].op
	default:
		order(mine)
		return mine[0].op
	}
}

// c11DistrView is the user-visible content of the distribution module: outstanding rewards per delegation,
// per-validator outstanding rewards and commission, community pool.
func c11DistrView(c *chain.Chain, nvals int) view {
	v := view{}
	ctx, _ := c.CommittedCtx().CacheContext()
	q := distrkeeper.NewQuerier(c.App.DistrKeeper)
	for _, a := range c11Tracked[:c11NUsers] {
		res, err := q.DelegationTotalRewards(ctx, &distrtypes.QueryDelegationTotalRewardsRequest{DelegatorAddress: sdk.AccAddress(a.Bytes()).String()})
		if err != nil {
			v["rewards/"+a.Hex()] = "error: " + err.Error()
			continue
		}
		for _, r := range res.Rewards {
			v["reward/"+a.Hex()+"/"+r.ValidatorAddress] = r.Reward.String()
		}
	}
	for i := 0; i < nvals; i++ {
		if r, err := c.App.DistrKeeper.GetValidatorOutstandingRewards(ctx, c11ValAddr(i)); err == nil {
			v["outstanding/"+c11ValAddr(i).String()] = r.Rewards.String()
		}
		if r, err := c.App.DistrKeeper.GetValidatorAccumulatedCommission(ctx, c11ValAddr(i)); err == nil {
			v["commission/"+c11ValAddr(i).String()] = r.Commission.String()
		}
	}
	if fp, err := c.App.DistrKeeper.FeePool.Get(ctx); err == nil {
		v["community"] = fp.CommunityPool.String()
	}
	return v
}

func c11Views(o *Outcome, c *chain.Chain, si int, st c11Step, nvals int) {
	ctx := c.CommittedCtx()
	who := chain.K(st.Sender).Addr
	call := func(method string, args ...interface{}) ([]interface{}, bool) {
		to := stakingCpcAddr()
		res, err := ethCall(c, chain.K(3).Addr, &to, unhexS(packStaking(method, args...)), nil, 3000000)
		if err != nil || res.VmError != "" {
			o.dev("", "step %d: view %s failed: %v %v", si, method, err, res)
			return nil, false
		}
		out, err := cpcabi.StakingCpcInfo.ABI.Unpack(method, res.Ret)
		if err != nil {
			o.dev("", "step %d: view %s returned undecodable data: %v", si, method, err)
			return nil, false
		}
		return out, true
	}
	total := new(big.Int)
	var delegated []string
	for i := 0; i < nvals; i++ {
		want := c11Delegated(c, ctx, who, i)
		total.Add(total, want)
		if d, err := c.App.StakingKeeper.GetDelegation(ctx, who.Bytes(), c11ValAddr(i)); err == nil && d.Shares.IsPositive() {
			delegated = append(delegated, addrHex(c11ValEth(i)))
		}
		if out, ok := call("delegationOf", who, c11ValEth(i)); ok {
			if got := out[0].(*big.Int); got.Cmp(want) != 0 {
				o.dev("", "step %d: delegationOf(%s, val %d) = %s, native query gives %s", si, who.Hex(), i, got, want)
			}
		}
	}
	if out, ok := call("totalDelegationOf", who); ok {
		if got := out[0].(*big.Int); got.Cmp(total) != 0 {
			o.dev("", "step %d: totalDelegationOf(%s) = %s, native sum %s", si, who.Hex(), got, total)
		}
	}
	if out, ok := call("delegatedValidators", who); ok {
		var got []string
		for _, a := range out[0].([]common.Address) {
			got = append(got, addrHex(a))
		}
		sort.Strings(got)
		sort.Strings(delegated)
		if strings.Join(got, ",") != strings.Join(delegated, ",") {
			o.dev("", "step %d: delegatedValidators(%s) = %v, native delegations %v", si, who.Hex(), got, delegated)
		}
	}
	// rewards: native querier on a throw-away branch of the same committed state
	qctx, _ := ctx.CacheContext()
	q := distrkeeper.NewQuerier(c.App.DistrKeeper)
	if res, err := q.DelegationTotalRewards(qctx, &distrtypes.QueryDelegationTotalRewardsRequest{DelegatorAddress: sdk.AccAddress(who.Bytes()).String()}); err == nil {
		want := res.Total.AmountOf(chain.Denom).TruncateInt().BigInt()
		if out, ok := call("rewardsOf", who); ok {
			if got := out[0].(*big.Int); got.Cmp(want) != 0 {
				o.dev("", "step %d: rewardsOf(%s) = %s, native query gives %s", si, who.Hex(), got, want)
			}
		}
		bal := c.App.BankKeeper.GetBalance(ctx, who.Bytes(), chain.Denom).Amount.BigInt()
		if out, ok := call("balanceOf", who); ok {
			if got := out[0].(*big.Int); got.Cmp(new(big.Int).Add(bal, want)) != 0 {
				o.dev("", "step %d: balanceOf(%s) = %s, expected balance + rewards = %s", si, who.Hex(), got, new(big.Int).Add(bal, want))
			}
		}
		for _, r := range res.Rewards {
			v, _ := sdk.ValAddressFromBech32(r.ValidatorAddress)
			if out, ok := call("rewardOf", who, common.BytesToAddress(v)); ok {
				if got, w := out[0].(*big.Int), r.Reward.AmountOf(chain.Denom).TruncateInt().BigInt(); got.Cmp(w) != 0 {
					o.dev("", "step %d: rewardOf(%s, %s) = %s, native query gives %s", si, who.Hex(), r.ValidatorAddress, got, w)
				}
			}
		}
	}
	_ = bytes.Equal
}

func TestC11(t *testing.T) { runProp(t, "C11", genC11, runC11) }

package props

import (
	"encoding/json"
	"fmt"
	"math/big"

	"github.com/ethereum/go-ethereum/common"
	"github.com/ethereum/go-ethereum/common/hexutil"

	evmtypes "github.com/EscanBE/evermint/v12/x/evm/types"

	"verif/harness/chain"
)

// ethCall performs eth_call through the real ABCI Query entry point at the latest committed height.
func ethCall(c *chain.Chain, from common.Address, to *common.Address, data []byte, value *big.Int, gasCap uint64) (*evmtypes.MsgEthereumTxResponse, error) {
	args := evmtypes.TransactionArgs{From: &from, To: to}
	d := hexutil.Bytes(data)
	args.Data = &d
	if value != nil {
		args.Value = (*hexutil.Big)(value)
	}
	bz, err := json.Marshal(&args)
	if err != nil {
		return nil, err
	}
	req := evmtypes.EthCallRequest{Args: bz, GasCap: gasCap}
	rbz, err := req.Marshal()
	if err != nil {
		return nil, err
	}
	res, err := c.Query("/ethermint.evm.v1.Query/EthCall", rbz, 0)
	if err != nil {
		return nil, err
	}
	if res.Code != 0 {
		return nil, fmt.Errorf("query failed: code %d: %s", res.Code, truncS(res.Log, 300))
	}
	var out evmtypes.MsgEthereumTxResponse
	if err := out.Unmarshal(res.Value); err != nil {
		return nil, err
	}
	return &out, nil
}

// estimateGas performs eth_estimateGas through ABCI Query.
func estimateGas(c *chain.Chain, from common.Address, to *common.Address, data []byte, value *big.Int, gasCap uint64) (uint64, error) {
	args := evmtypes.TransactionArgs{From: &from, To: to}
	d := hexutil.Bytes(data)
	args.Data = &d
	if value != nil {
		args.Value = (*hexutil.Big)(value)
	}
	bz, err := json.Marshal(&args)
	if err != nil {
		return 0, err
	}
	req := evmtypes.EthCallRequest{Args: bz, GasCap: gasCap}
	rbz, err := req.Marshal()
	if err != nil {
		return 0, err
	}
	res, err := c.Query("/ethermint.evm.v1.Query/EstimateGas", rbz, 0)
	if err != nil {
		return 0, err
	}
	if res.Code != 0 {
		return 0, fmt.Errorf("query failed: code %d: %s", res.Code, truncS(res.Log, 300))
	}
	var out evmtypes.EstimateGasResponse
	if err := out.Unmarshal(res.Value); err != nil {
		return 0, err
	}
	return out.Gas, nil
}

package props

// C19 — keys, addresses and signatures bind to exactly one key and one message.
//
//  TestC19Keys    sign/verify binding, address rule and key-encoding round trips against an
//                 independent secp256k1 implementation (decred) and a harness-side Keccak.
//  TestC19HD      mnemonic x path derivation against a from-scratch BIP-39/BIP-32 implementation,
//                 cosmos-sdk's own BIP-32 code and published wallet vectors.
//  TestC19EIP712  injectivity of the EIP-712 rendering of sign documents (amino and protobuf)
//                 under single-field perturbations; signature cross-verification.
//  TestC19Typed   the staking precompile's typed messages: same injectivity / binding check.
//  FuzzC19EIP712  arbitrary bytes into GetEIP712BytesForMsg (no panic, stable re-rendering).

import (
	"bytes"
	"context"
	"crypto/hmac"
	"crypto/sha512"
	"encoding/binary"
	"encoding/hex"
	"encoding/json"
	"fmt"
	"math/big"
	"strings"
	"sync"
	"testing"

	sdkmath "cosmossdk.io/math"
	"github.com/cosmos/cosmos-sdk/codec/legacy"
	codectypes "github.com/cosmos/cosmos-sdk/codec/types"
	sdkhd "github.com/cosmos/cosmos-sdk/crypto/hd"
	cryptotypes "github.com/cosmos/cosmos-sdk/crypto/types"
	sdk "github.com/cosmos/cosmos-sdk/types"
	"github.com/cosmos/cosmos-sdk/types/bech32/legacybech32" //nolint:staticcheck
	"github.com/cosmos/cosmos-sdk/types/tx/signing"
	authsigning "github.com/cosmos/cosmos-sdk/x/auth/signing"
	"github.com/cosmos/cosmos-sdk/x/authz"
	banktypes "github.com/cosmos/cosmos-sdk/x/bank/types"
	distrtypes "github.com/cosmos/cosmos-sdk/x/distribution/types"
	govv1 "github.com/cosmos/cosmos-sdk/x/gov/types/v1"
	govv1beta1 "github.com/cosmos/cosmos-sdk/x/gov/types/v1beta1"
	stakingtypes "github.com/cosmos/cosmos-sdk/x/staking/types"
	dcrsecp "github.com/decred/dcrd/dcrec/secp256k1/v4"
	dcrecdsa "github.com/decred/dcrd/dcrec/secp256k1/v4/ecdsa"
	"github.com/ethereum/go-ethereum/common"
	"github.com/tyler-smith/go-bip39"
	"golang.org/x/crypto/pbkdf2"
	"golang.org/x/crypto/sha3"
	"golang.org/x/text/unicode/norm"
	"pgregory.net/rapid"

	"github.com/EscanBE/evermint/v12/crypto/ethsecp256k1"
	evhd "github.com/EscanBE/evermint/v12/crypto/hd"
	"github.com/EscanBE/evermint/v12/ethereum/eip712"
	cpcabi "github.com/EscanBE/evermint/v12/x/cpc/abi"
	cpceip712 "github.com/EscanBE/evermint/v12/x/cpc/eip712"

	"verif/harness/chain"
	"verif/harness/stats"
)

// ----------------------------------------------------------------------------
// shared: one app instance supplies the codecs (and registers them with the eip712 package)

var (
	c19Once  sync.Once
	c19Chain *chain.Chain
)

func c19App() *chain.Chain {
	c19Once.Do(func() {
		w := chain.World{GenesisTime: 1700000000, NumVals: 1, BaseFee: "0", MinGasPrice: "0", MaxGas: -1,
			Accounts: []chain.GenAccount{{Key: 0, Coins: map[string]string{chain.Denom: eoaFunds}}}}
		c, err := chain.NewStarted(w, chain.NodeOpts{})
		if err != nil {
			panic(err)
		}
		c19Chain = c
	})
	return c19Chain
}

func keccak(b ...[]byte) []byte {
	h := sha3.NewLegacyKeccak256()
	for _, x := range b {
		h.Write(x)
	}
	return h.Sum(nil)
}

var secpN = dcrsecp.S256().N

// ----------------------------------------------------------------------------
// TestC19Keys

type c19KeyCase struct {
	Priv    string `json:"priv"`  // 32-byte scalar, hex
	Other   string `json:"other"` // another scalar
	Msg     string `json:"msg"`   // hex
	BitMsg  int    `json:"bit_msg"`
	BitSig  int    `json:"bit_sig"`
	ExtByte int    `json:"ext_byte"`
}

func genScalar(t *rapid.T, label string) string {
	k := rapid.IntRange(0, 9).Draw(t, label+"_k")
	var v *big.Int
	switch k {
	case 0:
		v = big.NewInt(int64(rapid.IntRange(1, 3).Draw(t, label+"_small")))
	case 1:
		v = new(big.Int).Sub(secpN, big.NewInt(int64(rapid.IntRange(1, 3).Draw(t, label+"_nminus"))))
	case 2: // leading zero bytes
		bz := rapid.SliceOfN(rapid.Byte(), 1, 30).Draw(t, label+"_short")
		v = new(big.Int).SetBytes(bz)
	default:
		bz := rapid.SliceOfN(rapid.Byte(), 32, 32).Draw(t, label+"_bytes")
		v = new(big.Int).SetBytes(bz)
	}
	v.Mod(v, secpN)
	if v.Sign() == 0 {
		v.SetInt64(1)
	}
	var out [32]byte
	v.FillBytes(out[:])
	return hex.EncodeToString(out[:])
}

func genC19Key(t *rapid.T) c19KeyCase {
	c := c19KeyCase{Priv: genScalar(t, "priv"), Other: genScalar(t, "other")}
	var n int
	switch rapid.IntRange(0, 5).Draw(t, "msglenk") {
	case 0:
		n = rapid.SampledFrom([]int{0, 1, 31, 32, 33, 64, 65}).Draw(t, "msglen_b")
	default:
		n = rapid.IntRange(0, 300).Draw(t, "msglen")
	}
	c.Msg = hex.EncodeToString(rapid.SliceOfN(rapid.Byte(), n, n).Draw(t, "msg"))
	c.BitMsg = rapid.IntRange(0, 1<<20).Draw(t, "bitmsg")
	c.BitSig = rapid.IntRange(0, 64*8-1).Draw(t, "bitsig")
	c.ExtByte = rapid.IntRange(0, 255).Draw(t, "ext")
	return c
}

func runC19Key(c c19KeyCase) *Outcome {
	o := &Outcome{}
	app := c19App()
	privBz, _ := hex.DecodeString(c.Priv)
	otherBz, _ := hex.DecodeString(c.Other)
	msg, _ := hex.DecodeString(c.Msg)

	priv := &ethsecp256k1.PrivKey{Key: privBz}
	pubI := priv.PubKey()
	if pubI == nil {
		o.dev("", "PubKey() is nil for valid scalar %s", c.Priv)
		return o
	}
	pub := pubI.(*ethsecp256k1.PubKey)

	// independent public key and address
	dpriv := dcrsecp.PrivKeyFromBytes(privBz)
	dpub := dpriv.PubKey()
	if !bytes.Equal(dpub.SerializeCompressed(), pub.Bytes()) {
		o.dev("", "public key differs from the independent implementation: %x vs %x", pub.Bytes(), dpub.SerializeCompressed())
	}
	wantAddr := keccak(dpub.SerializeUncompressed()[1:])[12:]
	if !bytes.Equal(pub.Address().Bytes(), wantAddr) {
		o.dev("", "address %x is not the last 20 bytes of keccak256(uncompressed key) %x", pub.Address().Bytes(), wantAddr)
	}

	// sign
	sig, err := priv.Sign(msg)
	if err != nil {
		o.dev("", "Sign failed: %v", err)
		return o
	}
	if len(sig) != 65 {
		o.dev("", "signature has %d bytes", len(sig))
		return o
	}
	digestForm := len(msg) == 32
	digest := keccak(msg)
	if digestForm {
		// Sign's documented contract: a 32-byte input is taken as the digest itself
		digest = msg
		o.label("msg:digest-form")
	} else {
		o.label("msg:hashed")
	}
	// the signature is a valid ECDSA signature by exactly this key over that digest (independent verifier)
	var r, s dcrsecp.ModNScalar
	r.SetByteSlice(sig[:32])
	s.SetByteSlice(sig[32:64])
	if !dcrecdsa.NewSignature(&r, &s).Verify(digest, dpub) {
		o.dev("", "Sign produced a signature the independent verifier rejects (msg len %d)", len(msg))
	}
	if sig[64] > 1 {
		o.dev("", "recovery id %d", sig[64])
	} else {
		compact := append([]byte{27 + sig[64]}, sig[:64]...)
		rec, _, err := dcrecdsa.RecoverCompact(compact, digest)
		if err != nil || !rec.IsEqual(dpub) {
			o.dev("", "recovery id does not recover the signing key (err=%v)", err)
		}
	}

	if !digestForm {
		if !pub.VerifySignature(msg, sig) {
			o.dev("", "VerifySignature(m, Sign(m)) = false (65-byte form), msg len %d", len(msg))
		}
		if !pub.VerifySignature(msg, sig[:64]) {
			o.dev("", "VerifySignature(m, Sign(m)) = false (64-byte form), msg len %d", len(msg))
		}
	}

	// --- negative direction: nothing else verifies
	// (a) other message
	var variants [][]byte
	if len(msg) > 0 {
		m2 := append([]byte{}, msg...)
		b := c.BitMsg % (len(msg) * 8)
		m2[b/8] ^= 1 << (b % 8)
		variants = append(variants, m2, msg[:len(msg)-1], msg[1:])
	}
	variants = append(variants, append(append([]byte{}, msg...), byte(c.ExtByte)), append([]byte{byte(c.ExtByte)}, msg...))
	if !digestForm {
		variants = append(variants, keccak(msg)) // the digest itself is another message
	}
	for i, m2 := range variants {
		if bytes.Equal(m2, msg) {
			continue
		}
		if digestForm && bytes.Equal(keccak(m2), msg) {
			continue
		}
		if pub.VerifySignature(m2, sig) || pub.VerifySignature(m2, sig[:64]) {
			o.dev("", "signature over a %d-byte message verifies for a different message (variant %d, len %d)", len(msg), i, len(m2))
		}
	}
	// (b) other signature bytes (R or S part; the recovery byte is not part of the binding)
	s2 := append([]byte{}, sig...)
	s2[c.BitSig/8] ^= 1 << (c.BitSig % 8)
	if pub.VerifySignature(msg, s2) || pub.VerifySignature(msg, s2[:64]) {
		// a flipped signature verifying means R/S are not both bound
		o.dev("", "signature with bit %d flipped still verifies", c.BitSig)
	}
	for _, bad := range [][]byte{sig[:63], append(append([]byte{}, sig...), 0), sig[:32], {}, make([]byte, 64), make([]byte, 65)} {
		if pub.VerifySignature(msg, bad) {
			o.dev("", "malformed %d-byte signature verifies", len(bad))
		}
	}
	// (c) other key
	if !bytes.Equal(otherBz, privBz) {
		other := &ethsecp256k1.PrivKey{Key: otherBz}
		if op := other.PubKey(); op != nil {
			if op.VerifySignature(msg, sig) || op.VerifySignature(msg, sig[:64]) {
				o.dev("", "signature verifies under a different key")
			}
			if op.Equals(pub) {
				o.dev("", "different scalars give Equal public keys")
			}
			if bytes.Equal(op.Address().Bytes(), pub.Address().Bytes()) {
				o.dev("", "different scalars give the same address")
			}
		}
		// negated key (same x coordinate, other parity)
		neg := new(big.Int).Sub(secpN, new(big.Int).SetBytes(privBz))
		var nb [32]byte
		neg.FillBytes(nb[:])
		if np := (&ethsecp256k1.PrivKey{Key: nb[:]}).PubKey(); np != nil && !bytes.Equal(nb[:], privBz) {
			if np.VerifySignature(msg, sig) {
				o.dev("", "signature verifies under the negated key")
			}
		}
	}

	// --- encodings round-trip
	amino := app.App.LegacyAmino()
	{
		bz, err := amino.MarshalJSON(pub)
		var back cryptotypes.PubKey
		if err != nil || amino.UnmarshalJSON(bz, &back) != nil || back == nil || !back.Equals(pub) || !bytes.Equal(back.Bytes(), pub.Bytes()) {
			o.dev("", "amino JSON public key round trip failed (%v) %s", err, bz)
		}
		bz, err = amino.Marshal(pub)
		var back2 cryptotypes.PubKey
		if err != nil || amino.Unmarshal(bz, &back2) != nil || back2 == nil || !back2.Equals(pub) {
			o.dev("", "amino binary public key round trip failed (%v)", err)
		}
		bz, err = amino.MarshalJSON(priv)
		var backP cryptotypes.PrivKey
		if err != nil || amino.UnmarshalJSON(bz, &backP) != nil || backP == nil || !bytes.Equal(backP.Bytes(), privBz) || !backP.PubKey().Equals(pub) {
			o.dev("", "amino JSON private key round trip failed (%v)", err)
		}
		bz, err = amino.Marshal(priv)
		var backP2 cryptotypes.PrivKey
		if err != nil || amino.Unmarshal(bz, &backP2) != nil || backP2 == nil || !bytes.Equal(backP2.Bytes(), privBz) {
			o.dev("", "amino binary private key round trip failed (%v)", err)
		}
		// the SDK-wide amino codec (keyring, legacy bech32) must know the key type too
		if s, err := legacybech32.MarshalPubKey(legacybech32.AccPK, pub); err != nil {
			o.dev("", "bech32 public key encoding failed: %v", err)
		} else if back, err := legacybech32.UnmarshalPubKey(legacybech32.AccPK, s); err != nil || !back.Equals(pub) {
			o.dev("", "bech32 public key round trip failed: %v", err)
		}
		_ = legacy.Cdc
	}
	{
		any, err := codectypes.NewAnyWithValue(pub)
		if err != nil {
			o.dev("", "Any(pub): %v", err)
		} else {
			bz, _ := any.Marshal()
			var a2 codectypes.Any
			var back cryptotypes.PubKey
			if err := a2.Unmarshal(bz); err != nil {
				o.dev("", "Any unmarshal: %v", err)
			} else if err := app.App.InterfaceRegistry().UnpackAny(&a2, &back); err != nil || !back.Equals(pub) {
				o.dev("", "protobuf Any public key round trip failed: %v", err)
			}
		}
		bz, err := pub.Marshal()
		var p2 ethsecp256k1.PubKey
		if err != nil || p2.Unmarshal(bz) != nil || !p2.Equals(pub) {
			o.dev("", "protobuf public key round trip failed")
		}
		bz, err = priv.Marshal()
		var k2 ethsecp256k1.PrivKey
		if err != nil || k2.Unmarshal(bz) != nil || !bytes.Equal(k2.Bytes(), privBz) {
			o.dev("", "protobuf private key round trip failed")
		}
		if g := evhd.EthSecp256k1.Generate()(privBz); !bytes.Equal(g.Bytes(), privBz) || !g.PubKey().Equals(pub) {
			o.dev("", "hd Generate does not keep the key bytes")
		}
		ec, err := priv.ToECDSA()
		if err != nil || ec.D.Cmp(new(big.Int).SetBytes(privBz)) != 0 {
			o.dev("", "ToECDSA changes the scalar")
		}
	}
	if privBz[0] == 0 {
		o.label("key:leading-zero")
	}
	o.NonTrivial = len(msg) > 0
	return o
}

func TestC19Keys(t *testing.T) { runProp(t, "C19", genC19Key, runC19Key) }

// ----------------------------------------------------------------------------
// TestC19HD

type c19HDCase struct {
	Entropy    string   `json:"entropy,omitempty"` // hex, 16..32 bytes in steps of 4
	Mnemonic   string   `json:"mnemonic,omitempty"`
	Passphrase string   `json:"passphrase"`
	Path       []uint32 `json:"path"` // hardened components carry bit 31
	WantAddr   string   `json:"want_addr,omitempty"`
}

const hardened = uint32(0x80000000)

func (c c19HDCase) pathString() string {
	var sb strings.Builder
	sb.WriteString("m")
	for _, p := range c.Path {
		if p >= hardened {
			fmt.Fprintf(&sb, "/%d'", p-hardened)
		} else {
			fmt.Fprintf(&sb, "/%d", p)
		}
	}
	return sb.String()
}

func genC19HD(t *rapid.T) c19HDCase {
	n := rapid.SampledFrom([]int{16, 20, 24, 28, 32}).Draw(t, "entlen")
	c := c19HDCase{Entropy: hex.EncodeToString(rapid.SliceOfN(rapid.Byte(), n, n).Draw(t, "entropy"))}
	switch rapid.IntRange(0, 3).Draw(t, "passk") {
	case 0:
		c.Passphrase = ""
	case 1:
		c.Passphrase = rapid.StringMatching(`[ -~]{1,16}`).Draw(t, "pass_ascii")
	default:
		c.Passphrase = rapid.StringN(1, 12, 40).Draw(t, "pass_any")
	}
	idx := func(label string) uint32 {
		switch rapid.IntRange(0, 3).Draw(t, label+"k") {
		case 0:
			return uint32(rapid.IntRange(0, 3).Draw(t, label+"s"))
		case 1:
			return hardened - 1 - uint32(rapid.IntRange(0, 2).Draw(t, label+"m"))
		default:
			return uint32(rapid.Uint32Range(0, hardened-1).Draw(t, label))
		}
	}
	if rapid.Bool().Draw(t, "bip44") {
		c.Path = []uint32{hardened + 44, hardened + 60, hardened + idx("acct"), uint32(rapid.IntRange(0, 1).Draw(t, "change")), idx("index")}
	} else {
		d := rapid.IntRange(1, 7).Draw(t, "depth")
		for i := 0; i < d; i++ {
			v := idx(fmt.Sprintf("p%d", i))
			if rapid.Bool().Draw(t, fmt.Sprintf("h%d", i)) {
				v += hardened
			}
			c.Path = append(c.Path, v)
		}
	}
	return c
}

// refDerive is a from-scratch BIP-39 seed + BIP-32 private derivation. It reports whether any key on the
// path had a leading zero byte (the classic serialisation pitfall).
func refDerive(mnemonic, passphrase string, path []uint32, normalise bool) (key []byte, leadingZero bool, err error) {
	if normalise {
		mnemonic, passphrase = norm.NFKD.String(mnemonic), norm.NFKD.String(passphrase)
	}
	seed := pbkdf2.Key([]byte(mnemonic), []byte("mnemonic"+passphrase), 2048, 64, sha512.New)
	mac := hmac.New(sha512.New, []byte("Bitcoin seed"))
	mac.Write(seed)
	I := mac.Sum(nil)
	k := new(big.Int).SetBytes(I[:32])
	cc := I[32:]
	if k.Sign() == 0 || k.Cmp(secpN) >= 0 {
		return nil, false, fmt.Errorf("invalid master key")
	}
	for _, idx := range path {
		var kb [32]byte
		k.FillBytes(kb[:])
		if kb[0] == 0 {
			leadingZero = true
		}
		var data []byte
		if idx >= hardened {
			data = append([]byte{0}, kb[:]...)
		} else {
			data = dcrsecp.PrivKeyFromBytes(kb[:]).PubKey().SerializeCompressed()
		}
		var ib [4]byte
		binary.BigEndian.PutUint32(ib[:], idx)
		data = append(data, ib[:]...)
		mac := hmac.New(sha512.New, cc)
		mac.Write(data)
		I := mac.Sum(nil)
		il := new(big.Int).SetBytes(I[:32])
		if il.Cmp(secpN) >= 0 {
			return nil, leadingZero, fmt.Errorf("invalid child (IL >= n)")
		}
		k = il.Add(il, k)
		k.Mod(k, secpN)
		if k.Sign() == 0 {
			return nil, leadingZero, fmt.Errorf("invalid child (zero key)")
		}
		cc = I[32:]
	}
	var out [32]byte
	k.FillBytes(out[:])
	if out[0] == 0 {
		leadingZero = true
	}
	return out[:], leadingZero, nil
}

func runC19HD(c c19HDCase) *Outcome {
	o := &Outcome{}
	mn := c.Mnemonic
	if mn == "" {
		ent, _ := hex.DecodeString(c.Entropy)
		var err error
		mn, err = bip39.NewMnemonic(ent)
		if err != nil {
			o.Excluded = "entropy length not accepted by BIP-39"
			return o
		}
	}
	path := c.pathString()
	got, err := evhd.EthSecp256k1.Derive()(mn, c.Passphrase, path)
	want, lz, rerr := refDerive(mn, c.Passphrase, c.Path, true)
	if rerr != nil {
		// probability 2^-127; the implementation may legitimately fail as well
		o.Excluded = "reference derivation hit an invalid child"
		return o
	}
	if err != nil {
		o.dev("", "Derive(%q) failed: %v", path, err)
		return o
	}
	if !bytes.Equal(got, want) {
		raw, _, _ := refDerive(mn, c.Passphrase, c.Path, false)
		if !norm.NFKD.IsNormalString(c.Passphrase) && bytes.Equal(got, raw) {
			// listed finding: the passphrase is fed to PBKDF2 without the NFKD normalisation BIP-39 prescribes;
			// everything else is still compared, against the un-normalised reading
			o.dev("D17-bip39-passphrase-not-nfkd", "Derive(%q) with passphrase %q (not NFKD-normal) = %x, BIP-39 (NFKD) gives %x", path, c.Passphrase, got, want)
			o.label("hd:passphrase-not-nfkd")
			want = raw
		} else {
			o.dev("", "Derive(%q) = %x, from-scratch BIP-32 gives %x", path, got, want)
		}
	}
	// cosmos-sdk's own BIP-32 implementation
	if sk, err := sdkhd.Secp256k1.Derive()(mn, c.Passphrase, path); err == nil {
		if !bytes.Equal(sk, got) {
			o.dev("", "Derive(%q) = %x, cosmos-sdk BIP-32 gives %x", path, got, sk)
		}
	}
	// the address every Ethereum wallet would show
	pk := evhd.EthSecp256k1.Generate()(got)
	addr := common.BytesToAddress(pk.PubKey().Address().Bytes())
	wantAddr := common.BytesToAddress(keccak(dcrsecp.PrivKeyFromBytes(want).PubKey().SerializeUncompressed()[1:])[12:])
	if addr != wantAddr {
		o.dev("", "address %s, expected %s", addr.Hex(), wantAddr.Hex())
	}
	if c.WantAddr != "" && !strings.EqualFold(addr.Hex(), c.WantAddr) {
		o.dev("", "published vector: %q %s gives %s, expected %s", mn, path, addr.Hex(), c.WantAddr)
	}
	if lz {
		o.label("hd:leading-zero-key-on-path")
	}
	if len(c.Path) == 5 && c.Path[0] == hardened+44 && c.Path[1] == hardened+60 {
		o.label("hd:bip44-eth")
	} else {
		o.label("hd:arbitrary-path")
	}
	if c.Passphrase != "" {
		o.label("hd:passphrase")
	}
	o.NonTrivial = len(c.Path) >= 2
	return o
}

const junkMnemonic = "test test test test test test test test test test test junk"
const abandonMnemonic = "abandon abandon abandon abandon abandon abandon abandon abandon abandon abandon abandon about"

// published wallet vectors (Hardhat/Anvil default accounts; the well-known all-"abandon" wallet)
var c19Vectors = []c19HDCase{
	{Mnemonic: junkMnemonic, Path: []uint32{hardened + 44, hardened + 60, hardened, 0, 0}, WantAddr: "0xf39Fd6e51aad88F6F4ce6aB8827279cffFb92266"},
	{Mnemonic: junkMnemonic, Path: []uint32{hardened + 44, hardened + 60, hardened, 0, 1}, WantAddr: "0x70997970C51812dc3A010C7d01b50e0d17dc79C8"},
	{Mnemonic: junkMnemonic, Path: []uint32{hardened + 44, hardened + 60, hardened, 0, 2}, WantAddr: "0x3C44CdDdB6a900fa2b585dd299e03d12FA4293BC"},
	{Mnemonic: junkMnemonic, Path: []uint32{hardened + 44, hardened + 60, hardened, 0, 9}, WantAddr: "0xa0Ee7A142d267C1f36714E4a8F75612F20a79720"},
	{Mnemonic: abandonMnemonic, Path: []uint32{hardened + 44, hardened + 60, hardened, 0, 0}, WantAddr: "0x9858EfFD232B4033E47d90003D41EC34EcaEda94"},
}

func TestC19HD(t *testing.T) {
	if testing.Short() {
		t.Skip()
	}
	// the published vectors run on every invocation, outside rapid
	if rp := getenv("VERIF_REPLAY"); rp == "" {
		for _, v := range c19Vectors {
			o := safeRun(runC19HD, v)
			bz, _ := json.Marshal(v)
			if viol := account("C19", bz, o); len(viol) > 0 {
				writeFail(t, "C19", bz, viol)
				t.Fatalf("VIOLATION C19 (published vector):\n%s", fmtDevs(viol))
			}
			stats.Extra("published_vectors", 1)
		}
	}
	runProp(t, "C19", genC19HD, runC19HD)
}

// ----------------------------------------------------------------------------
// TestC19EIP712

type c19Coin struct {
	Denom  string `json:"denom"`
	Amount string `json:"amount"`
}

type c19Msg struct {
	Kind   string    `json:"kind"`
	To     int       `json:"to,omitempty"`  // key index of the counterparty / validator
	To2    int       `json:"to2,omitempty"` // second validator
	Coins  []c19Coin `json:"coins,omitempty"`
	Num    uint64    `json:"num,omitempty"`
	Option int32     `json:"option,omitempty"`
	Text   string    `json:"text,omitempty"`
	Inner  []c19Msg  `json:"inner,omitempty"`
}

type c19Doc struct {
	Form    string    `json:"form"` // amino | proto
	ChainID string    `json:"chain_id"`
	AccNum  uint64    `json:"acc_num"`
	Seq     uint64    `json:"seq"`
	Gas     uint64    `json:"gas"`
	Fee     []c19Coin `json:"fee"`
	Memo    string    `json:"memo"`
	Signer  int       `json:"signer"`
	Msgs    []c19Msg  `json:"msgs"`
}

type c19Pert struct {
	Field string `json:"field"`
	Msg   int    `json:"msg,omitempty"`
	S     string `json:"s,omitempty"`
	N     uint64 `json:"n,omitempty"`
}

type c19EIPCase struct {
	Doc  c19Doc  `json:"doc"`
	Pert c19Pert `json:"pert"`
	Key  string  `json:"key"`
}

func sdkCoins(cs []c19Coin) sdk.Coins {
	out := sdk.Coins{}
	for _, c := range cs {
		amt, ok := sdkmath.NewIntFromString(c.Amount)
		if !ok {
			amt = sdkmath.ZeroInt()
		}
		out = append(out, sdk.Coin{Denom: c.Denom, Amount: amt})
	}
	return out
}

func c19Addr(i int) sdk.AccAddress { return chain.ExtraKey(i).Acc() }
func c19Val(i int) string          { return sdk.ValAddress(chain.ExtraKey(i).Addr.Bytes()).String() }

func (m c19Msg) build(signer int) sdk.Msg {
	from := c19Addr(signer)
	coin := func() sdk.Coin {
		cs := sdkCoins(m.Coins)
		if len(cs) == 0 {
			return sdk.Coin{Denom: chain.Denom, Amount: sdkmath.ZeroInt()}
		}
		return cs[0]
	}
	switch m.Kind {
	case "send":
		return &banktypes.MsgSend{FromAddress: from.String(), ToAddress: c19Addr(m.To).String(), Amount: sdkCoins(m.Coins)}
	case "delegate":
		return &stakingtypes.MsgDelegate{DelegatorAddress: from.String(), ValidatorAddress: c19Val(m.To), Amount: coin()}
	case "undelegate":
		return &stakingtypes.MsgUndelegate{DelegatorAddress: from.String(), ValidatorAddress: c19Val(m.To), Amount: coin()}
	case "redelegate":
		return &stakingtypes.MsgBeginRedelegate{DelegatorAddress: from.String(), ValidatorSrcAddress: c19Val(m.To), ValidatorDstAddress: c19Val(m.To2), Amount: coin()}
	case "withdraw":
		return &distrtypes.MsgWithdrawDelegatorReward{DelegatorAddress: from.String(), ValidatorAddress: c19Val(m.To)}
	case "setwithdraw":
		return &distrtypes.MsgSetWithdrawAddress{DelegatorAddress: from.String(), WithdrawAddress: c19Addr(m.To).String()}
	case "vote":
		return &govv1beta1.MsgVote{ProposalId: m.Num, Voter: from.String(), Option: govv1beta1.VoteOption(m.Option)}
	case "votev1":
		return &govv1.MsgVote{ProposalId: m.Num, Voter: from.String(), Option: govv1.VoteOption(m.Option), Metadata: m.Text}
	case "deposit":
		return &govv1.MsgDeposit{ProposalId: m.Num, Depositor: from.String(), Amount: sdkCoins(m.Coins)}
	case "exec":
		var inner []sdk.Msg
		for _, im := range m.Inner {
			inner = append(inner, im.build(m.To)) // inner messages act for the granter m.To
		}
		e := authz.NewMsgExec(from, inner)
		return &e
	}
	panic("bad msg kind " + m.Kind)
}

var c19MsgKinds = []string{"send", "delegate", "undelegate", "redelegate", "withdraw", "setwithdraw", "vote", "votev1", "deposit", "exec"}

func genC19Coin(t *rapid.T, label string) c19Coin {
	amt := "0"
	switch rapid.IntRange(0, 4).Draw(t, label+"_ak") {
	case 0:
		amt = fmt.Sprint(rapid.IntRange(0, 9).Draw(t, label+"_small"))
	case 1:
		amt = new(big.Int).Lsh(big.NewInt(1), uint(rapid.IntRange(50, 255).Draw(t, label+"_sh"))).String()
	default:
		amt = fmt.Sprint(rapid.Uint64().Draw(t, label+"_amt"))
	}
	return c19Coin{Denom: rapid.SampledFrom([]string{chain.Denom, "ufoo", "ibc/27394FB092D2ECCD56123C74F36E4C1F926001CEADA9CA97EA622B25F41E5EB2", "abc"}).Draw(t, label+"_denom"), Amount: amt}
}

func genC19Msg(t *rapid.T, depth int, label string) c19Msg {
	kinds := c19MsgKinds
	if depth >= 2 {
		kinds = kinds[:len(kinds)-1]
	}
	m := c19Msg{Kind: rapid.SampledFrom(kinds).Draw(t, label+"_kind")}
	m.To = rapid.IntRange(1, 6).Draw(t, label+"_to")
	m.To2 = rapid.IntRange(1, 6).Draw(t, label+"_to2")
	switch m.Kind {
	case "send", "deposit":
		n := rapid.IntRange(1, 3).Draw(t, label+"_ncoins")
		for i := 0; i < n; i++ {
			m.Coins = append(m.Coins, genC19Coin(t, fmt.Sprintf("%s_c%d", label, i)))
		}
	case "delegate", "undelegate", "redelegate":
		m.Coins = []c19Coin{genC19Coin(t, label+"_c")}
	}
	m.Num = rapid.Uint64Range(0, 1<<40).Draw(t, label+"_num")
	m.Option = int32(rapid.IntRange(1, 4).Draw(t, label+"_opt"))
	if m.Kind == "votev1" && rapid.Bool().Draw(t, label+"_hasmeta") {
		m.Text = genC19Text(t, label+"_meta")
	}
	if m.Kind == "exec" {
		n := rapid.IntRange(1, 2).Draw(t, label+"_ninner")
		for i := 0; i < n; i++ {
			im := genC19Msg(t, depth+1, fmt.Sprintf("%s_i%d", label, i))
			// EIP-712 arrays are typed by their first element: mixed inner kinds rarely render
			if i > 0 && im.Kind != m.Inner[0].Kind && rapid.IntRange(0, 3).Draw(t, label+"_mixed") != 0 {
				k0 := m.Inner[0]
				im.Kind, im.Coins, im.Inner = k0.Kind, append([]c19Coin{}, k0.Coins...), nil
				if len(im.Coins) > 0 {
					im.Coins[0].Amount = bumpAmount(im.Coins[0].Amount, 1)
				}
			}
			m.Inner = append(m.Inner, im)
		}
	}
	return m
}

func genC19Text(t *rapid.T, label string) string {
	switch rapid.IntRange(0, 4).Draw(t, label+"_k") {
	case 0:
		return ""
	case 1:
		return rapid.SampledFrom([]string{"msg0", "\"", "{\"msgs\":[]}", "<&>", "a\\u0041", "é", "\\", " ", "0", "null", "true"}).Draw(t, label+"_special")
	case 2:
		return rapid.StringN(1, 20, 80).Draw(t, label+"_any")
	default:
		return rapid.StringMatching(`[a-zA-Z0-9 ]{1,24}`).Draw(t, label+"_plain")
	}
}

var c19ChainIDs = []string{"evermint_80808-1", "evermint_80808-2", "evermint_80809-1", "evermint_90909-1", "evmos_9001-2", "a_1-1", "x_18446744073709551617-1", "x_1-18446744073709551617"}

func genC19EIP(t *rapid.T) c19EIPCase {
	d := c19Doc{
		Form:    rapid.SampledFrom([]string{"amino", "proto"}).Draw(t, "form"),
		ChainID: rapid.SampledFrom(c19ChainIDs).Draw(t, "chainid"),
		AccNum:  rapid.Uint64().Draw(t, "accnum"),
		Seq:     rapid.Uint64().Draw(t, "seq"),
		Gas:     rapid.Uint64().Draw(t, "gas"),
		Memo:    genC19Text(t, "memo"),
		Signer:  0,
	}
	if rapid.IntRange(0, 3).Draw(t, "smallnums") == 0 {
		d.AccNum, d.Seq, d.Gas = d.AccNum%4, d.Seq%4, d.Gas%300000
	}
	nf := rapid.IntRange(0, 2).Draw(t, "nfee")
	for i := 0; i < nf; i++ {
		d.Fee = append(d.Fee, genC19Coin(t, fmt.Sprintf("fee%d", i)))
	}
	nm := rapid.IntRange(1, 3).Draw(t, "nmsgs")
	for i := 0; i < nm; i++ {
		d.Msgs = append(d.Msgs, genC19Msg(t, 0, fmt.Sprintf("m%d", i)))
	}
	c := c19EIPCase{Doc: d, Key: genScalar(t, "key")}
	fields := []string{"chain_id", "account_number", "sequence", "gas", "memo", "fee_amount", "fee_denom", "fee_add", "fee_drop",
		"msg_to", "msg_to2", "msg_amount", "msg_denom", "msg_num", "msg_option", "msg_text", "msg_coin_add", "msg_kind", "msg_dup", "msg_swap", "msg_drop", "inner_to", "inner_amount", "inner_granter"}
	p := c19Pert{Msg: rapid.IntRange(0, nm-1).Draw(t, "pmsg")}
	p.N = rapid.Uint64Range(1, 1<<62).Draw(t, "pn")
	if rapid.Bool().Draw(t, "pn_small") {
		p.N = uint64(rapid.IntRange(1, 3).Draw(t, "pn_s"))
	}
	sFor := map[string]string{
		"chain_id":  rapid.SampledFrom(c19ChainIDs).Draw(t, "pchain"),
		"memo":      genC19Text(t, "ptext"),
		"fee_denom": rapid.SampledFrom([]string{chain.Denom, "ufoo", "abc", "abd"}).Draw(t, "pdenom"),
		"msg_kind":  rapid.SampledFrom([]string{"delegate", "undelegate", "withdraw", "setwithdraw", "vote", "votev1", "send", "deposit"}).Draw(t, "pkind"),
	}
	sFor["msg_text"], sFor["msg_denom"] = sFor["memo"], sFor["fee_denom"]
	// only perturbations that change this document are candidates (construction instead of rejection)
	var applicable []string
	for _, f := range fields {
		q := p
		q.Field, q.S = f, sFor[f]
		if _, changed := q.apply(d); changed {
			applicable = append(applicable, f)
		}
	}
	// message-level fields are the interesting ones: pick them half of the time when available
	var msgLevel []string
	for _, f := range applicable {
		if strings.HasPrefix(f, "msg_") || strings.HasPrefix(f, "inner_") {
			msgLevel = append(msgLevel, f)
		}
	}
	if len(msgLevel) > 0 && rapid.Bool().Draw(t, "pmsglevel") {
		applicable = msgLevel
	}
	p.Field = rapid.SampledFrom(applicable).Draw(t, "pfield")
	p.S = sFor[p.Field]
	c.Pert = p
	return c
}

func bumpAmount(a string, n uint64) string {
	v, ok := new(big.Int).SetString(a, 10)
	if !ok {
		v = new(big.Int)
	}
	return v.Add(v, new(big.Int).SetUint64(n)).String()
}

// apply returns the perturbed document and whether it differs from the original in the named field.
func (p c19Pert) apply(d c19Doc) (c19Doc, bool) {
	bz, _ := json.Marshal(d)
	var b c19Doc
	_ = json.Unmarshal(bz, &b)
	mi := p.Msg % len(b.Msgs)
	m := &b.Msgs[mi]
	switch p.Field {
	case "chain_id":
		b.ChainID = p.S
	case "account_number":
		b.AccNum += p.N
	case "sequence":
		b.Seq += p.N
	case "gas":
		b.Gas += p.N
	case "memo":
		b.Memo = p.S
	case "fee_amount":
		if len(b.Fee) == 0 {
			return b, false
		}
		b.Fee[0].Amount = bumpAmount(b.Fee[0].Amount, p.N)
	case "fee_denom":
		if len(b.Fee) == 0 {
			return b, false
		}
		b.Fee[0].Denom = p.S
	case "fee_add":
		b.Fee = append(b.Fee, c19Coin{Denom: "zzz", Amount: fmt.Sprint(p.N)})
	case "fee_drop":
		if len(b.Fee) == 0 {
			return b, false
		}
		b.Fee = b.Fee[1:]
	case "msg_to":
		m.To = m.To%6 + 1
		if m.Kind == "exec" || m.Kind == "vote" || m.Kind == "votev1" || m.Kind == "deposit" {
			return b, false // To is not a field of these messages (exec: see inner_granter)
		}
	case "msg_to2":
		if m.Kind != "redelegate" {
			return b, false
		}
		m.To2 = m.To2%6 + 1
	case "msg_amount":
		if len(m.Coins) == 0 {
			return b, false
		}
		m.Coins[len(m.Coins)-1].Amount = bumpAmount(m.Coins[len(m.Coins)-1].Amount, p.N)
	case "msg_denom":
		if len(m.Coins) == 0 {
			return b, false
		}
		m.Coins[len(m.Coins)-1].Denom = p.S
	case "msg_coin_add":
		if m.Kind != "send" && m.Kind != "deposit" {
			return b, false
		}
		m.Coins = append(m.Coins, c19Coin{Denom: "zzz", Amount: fmt.Sprint(p.N)})
	case "msg_num":
		if m.Kind != "vote" && m.Kind != "votev1" && m.Kind != "deposit" {
			return b, false
		}
		m.Num += p.N
	case "msg_option":
		if m.Kind != "vote" && m.Kind != "votev1" {
			return b, false
		}
		m.Option = m.Option%4 + 1
	case "msg_text":
		if m.Kind != "votev1" {
			return b, false
		}
		m.Text = p.S
	case "msg_kind":
		if m.Kind == "exec" {
			return b, false
		}
		m.Kind = p.S
		if len(m.Coins) == 0 {
			m.Coins = []c19Coin{{Denom: chain.Denom, Amount: "1"}}
		}
	case "msg_dup":
		b.Msgs = append(b.Msgs, b.Msgs[mi])
	case "msg_swap":
		if len(b.Msgs) < 2 {
			return b, false
		}
		j := (mi + 1) % len(b.Msgs)
		b.Msgs[mi], b.Msgs[j] = b.Msgs[j], b.Msgs[mi]
	case "msg_drop":
		if len(b.Msgs) < 2 {
			return b, false
		}
		b.Msgs = append(b.Msgs[:mi:mi], b.Msgs[mi+1:]...)
	case "inner_to", "inner_amount", "inner_granter":
		if m.Kind != "exec" || len(m.Inner) == 0 {
			return b, false
		}
		in := &m.Inner[len(m.Inner)-1]
		switch p.Field {
		case "inner_to":
			if in.Kind == "vote" || in.Kind == "votev1" || in.Kind == "deposit" || in.Kind == "exec" {
				return b, false
			}
			in.To = in.To%6 + 1
		case "inner_amount":
			if len(in.Coins) == 0 {
				return b, false
			}
			in.Coins[0].Amount = bumpAmount(in.Coins[0].Amount, p.N)
		case "inner_granter":
			m.To = m.To%6 + 1
		}
	}
	a2, _ := json.Marshal(d)
	b2, _ := json.Marshal(b)
	return b, !bytes.Equal(a2, b2)
}

// signBytes builds the sign-document bytes exactly as a client would (tx builder + sign-mode handler).
func (d c19Doc) signBytes(app *chain.Chain, pub cryptotypes.PubKey) ([]byte, error) {
	b := app.TxCfg.NewTxBuilder()
	var msgs []sdk.Msg
	for _, m := range d.Msgs {
		msgs = append(msgs, m.build(d.Signer))
	}
	if err := b.SetMsgs(msgs...); err != nil {
		return nil, err
	}
	b.SetGasLimit(d.Gas)
	b.SetFeeAmount(sdkCoins(d.Fee))
	b.SetMemo(d.Memo)
	mode := signing.SignMode_SIGN_MODE_DIRECT
	if d.Form == "amino" {
		mode = signing.SignMode_SIGN_MODE_LEGACY_AMINO_JSON
	}
	if err := b.SetSignatures(signing.SignatureV2{PubKey: pub, Data: &signing.SingleSignatureData{SignMode: mode}, Sequence: d.Seq}); err != nil {
		return nil, err
	}
	sd := authsigning.SignerData{Address: sdk.AccAddress(pub.Address()).String(), ChainID: d.ChainID, AccountNumber: d.AccNum, Sequence: d.Seq, PubKey: pub}
	return authsigning.GetSignBytesAdapter(context.Background(), app.TxCfg.SignModeHandler(), mode, sd, b.GetTx())
}

func runC19EIP(c c19EIPCase) *Outcome {
	o := &Outcome{}
	app := c19App()
	keyBz, _ := hex.DecodeString(c.Key)
	priv := &ethsecp256k1.PrivKey{Key: keyBz}
	pub := priv.PubKey()

	docA := c.Doc
	docB, changed := c.Pert.apply(docA)
	o.label("form:" + docA.Form)
	if !changed {
		o.label("pert:not-applicable")
	}
	bytesA, err := docA.signBytes(app, pub)
	if err != nil {
		o.Excluded = "sign document A cannot be built: " + truncS(err.Error(), 60)
		return o
	}
	rawA, err := eip712.GetEIP712BytesForMsg(bytesA)
	if err != nil {
		o.label("render:A-fails")
		if debugLabels {
			fmt.Println("RENDER-A-FAIL", err)
		}
		return o
	}
	o.label("render:A-ok")
	// stability
	if again, err := eip712.GetEIP712BytesForMsg(bytesA); err != nil || !bytes.Equal(again, rawA) {
		o.dev("", "rendering the same sign document twice gives different bytes")
	}
	if len(rawA) != 66 || rawA[0] != 0x19 || rawA[1] != 0x01 {
		o.dev("", "rendering is not \\x19\\x01 || domainSeparator || hashStruct (len %d)", len(rawA))
	}
	// a signature over the rendering authorises document A ...
	sigA, err := priv.Sign(rawA)
	if err != nil {
		o.dev("", "sign: %v", err)
		return o
	}
	if !pub.VerifySignature(bytesA, sigA) {
		o.dev("", "a signature over the EIP-712 rendering does not verify for its own sign document")
	}
	if !changed {
		return o
	}
	bytesB, err := docB.signBytes(app, pub)
	if err != nil {
		o.label("pert:B-unbuildable")
		return o
	}
	if bytes.Equal(bytesA, bytesB) {
		// the perturbation is not visible in the sign document (not one of the listed fields then)
		o.label("pert:same-sign-bytes")
		if debugLabels {
			fmt.Printf("SAME-SIGN-BYTES %+v\n", c.Pert)
		}
		return o
	}
	o.label("pert:" + c.Pert.Field)
	// ... and never document B
	if pub.VerifySignature(bytesB, sigA) {
		o.dev("", "signature for one sign document verifies for a document differing in %s", c.Pert.Field)
	}
	rawB, err := eip712.GetEIP712BytesForMsg(bytesB)
	if err != nil {
		o.label("render:B-fails")
		return o
	}
	o.NonTrivial = true
	if bytes.Equal(rawA, rawB) {
		o.dev("", "EIP-712 rendering is not injective in %s: both documents render to %x", c.Pert.Field, rawA)
	} else if bytes.Equal(keccak(rawA), keccak(rawB)) {
		o.dev("", "typed-data digests collide")
	}
	// the direct (non EIP-712) signature binds as well
	sigD, _ := priv.Sign(bytesA)
	if !pub.VerifySignature(bytesA, sigD) || pub.VerifySignature(bytesB, sigD) {
		o.dev("", "direct signature binding broken for perturbation %s", c.Pert.Field)
	}
	return o
}

func TestC19EIP712(t *testing.T) { runProp(t, "C19", genC19EIP, runC19EIP) }

// ----------------------------------------------------------------------------
// TestC19Typed — typed messages of the staking precompile

type c19TypedCase struct {
	Kind      string `json:"kind"` // staking | withdraw
	Action    string `json:"action"`
	Delegator int    `json:"delegator"`
	Validator string `json:"validator"`
	OldVal    string `json:"old_val"`
	Amount    string `json:"amount"`
	Denom     string `json:"denom"`
	ChainID   uint64 `json:"chain_id"`
	Pert      string `json:"pert"`
	PertS     string `json:"pert_s"`
	PertN     uint64 `json:"pert_n"`
	Key       string `json:"key"`
	V         int    `json:"v"` // 0: as produced (0/1); 1: +27
}

func genC19Typed(t *rapid.T) c19TypedCase {
	vals := []string{c19Val(1), c19Val(2), c19Val(3), "all", "-", "", "evmvaloper1xyz"}
	c := c19TypedCase{
		Kind:      rapid.SampledFrom([]string{"staking", "withdraw"}).Draw(t, "kind"),
		Action:    rapid.SampledFrom([]string{"Delegate", "Undelegate", "Redelegate", "delegate", ""}).Draw(t, "action"),
		Delegator: rapid.IntRange(0, 5).Draw(t, "delegator"),
		Validator: rapid.SampledFrom(vals).Draw(t, "validator"),
		OldVal:    rapid.SampledFrom(vals).Draw(t, "oldval"),
		Denom:     rapid.SampledFrom([]string{chain.Denom, "ufoo", ""}).Draw(t, "denom"),
		ChainID:   rapid.SampledFrom([]uint64{80808, 80809, 1, 9000, 1 << 40}).Draw(t, "chainid"),
		Key:       genScalar(t, "key"),
		V:         rapid.IntRange(0, 1).Draw(t, "v"),
	}
	switch rapid.IntRange(0, 2).Draw(t, "amtk") {
	case 0:
		c.Amount = fmt.Sprint(rapid.IntRange(0, 5).Draw(t, "amt_s"))
	case 1:
		c.Amount = new(big.Int).Sub(new(big.Int).Lsh(big.NewInt(1), 256), big.NewInt(int64(rapid.IntRange(1, 3).Draw(t, "amt_top")))).String()
	default:
		c.Amount = fmt.Sprint(rapid.Uint64().Draw(t, "amt"))
	}
	perts := []string{"action", "delegator", "validator", "amount", "denom", "old_validator", "chain_id"}
	if c.Kind == "withdraw" {
		perts = []string{"delegator", "validator", "chain_id"}
	}
	c.Pert = rapid.SampledFrom(perts).Draw(t, "pert")
	c.PertS = rapid.SampledFrom(append(vals, "Delegate", "Undelegate", "Redelegate", chain.Denom, "ufoo")).Draw(t, "perts")
	c.PertN = uint64(rapid.IntRange(1, 1000).Draw(t, "pertn"))
	return c
}

func (c c19TypedCase) build(pert bool) (cpceip712.TypedMessage, *big.Int) {
	action, del, val, old, denom, cid := c.Action, c.Delegator, c.Validator, c.OldVal, c.Denom, c.ChainID
	amt, _ := new(big.Int).SetString(c.Amount, 10)
	if pert {
		switch c.Pert {
		case "action":
			action = c.PertS
		case "delegator":
			del = del + 1
		case "validator":
			val = c.PertS
		case "old_validator":
			old = c.PertS
		case "amount":
			amt = new(big.Int).Add(amt, new(big.Int).SetUint64(c.PertN))
			if amt.BitLen() > 256 {
				amt.Sub(amt, new(big.Int).SetUint64(2*c.PertN))
			}
		case "denom":
			denom = c.PertS
		case "chain_id":
			cid = cid + c.PertN
		}
	}
	if c.Kind == "withdraw" {
		return cpcabi.WithdrawRewardMessage{Delegator: chain.ExtraKey(del).Addr, FromValidator: val}, new(big.Int).SetUint64(cid)
	}
	return cpcabi.StakingMessage{Action: action, Delegator: chain.ExtraKey(del).Addr, Validator: val, Amount: amt, Denom: denom, OldValidator: old}, new(big.Int).SetUint64(cid)
}

func runC19Typed(c c19TypedCase) *Outcome {
	o := &Outcome{}
	keyBz, _ := hex.DecodeString(c.Key)
	priv := &ethsecp256k1.PrivKey{Key: keyBz}
	signer := common.BytesToAddress(priv.PubKey().Address().Bytes())
	tmA, cidA := c.build(false)
	tmB, cidB := c.build(true)
	o.label("typed:" + c.Kind)
	hA, err := cpceip712.EIP712HashingTypedMessage(tmA, cidA)
	if err != nil {
		o.label("typed:A-unhashable")
		return o
	}
	if h2, err := cpceip712.EIP712HashingTypedMessage(tmA, cidA); err != nil || !bytes.Equal(h2, hA) {
		o.dev("", "typed-message hash is not stable")
	}
	sig, err := priv.Sign(hA) // 32 bytes: signed as a digest
	if err != nil {
		o.dev("", "sign: %v", err)
		return o
	}
	var r, s [32]byte
	copy(r[:], sig[:32])
	copy(s[:], sig[32:64])
	v := sig[64]
	if c.V == 1 {
		v += 27
	}
	match, rec, err := cpceip712.VerifySignature(signer, tmA, r, s, v, cidA)
	if err != nil || !match || rec != signer {
		o.dev("", "own signature over a typed message does not verify (match=%v err=%v)", match, err)
	}
	ja, _ := json.Marshal(tmA)
	jb, _ := json.Marshal(tmB)
	if bytes.Equal(ja, jb) && cidA.Cmp(cidB) == 0 {
		o.label("typed:pert-noop")
		return o
	}
	o.label("typed-pert:" + c.Pert)
	hB, err := cpceip712.EIP712HashingTypedMessage(tmB, cidB)
	if err != nil {
		o.label("typed:B-unhashable")
		return o
	}
	o.NonTrivial = true
	if bytes.Equal(hA, hB) {
		o.dev("", "typed messages differing in %s hash to the same digest %x", c.Pert, hA)
	}
	if match, rec, _ := cpceip712.VerifySignature(signer, tmB, r, s, v, cidB); match || rec == signer {
		o.dev("", "signature for one typed message verifies for a message differing in %s", c.Pert)
	}
	// another expected address never matches
	if match, _, _ := cpceip712.VerifySignature(chain.ExtraKey(77).Addr, tmA, r, s, v, cidA); match {
		o.dev("", "signature matches an unrelated expected address")
	}
	return o
}

func TestC19Typed(t *testing.T) { runProp(t, "C19", genC19Typed, runC19Typed) }

// ----------------------------------------------------------------------------
// FuzzC19EIP712 — arbitrary bytes offered as a sign document

func FuzzC19EIP712(f *testing.F) {
	app := c19App()
	pub := chain.K(0).Priv.PubKey()
	seedDocs := []c19Doc{
		{Form: "amino", ChainID: "evermint_80808-1", AccNum: 1, Seq: 2, Gas: 200000, Fee: []c19Coin{{chain.Denom, "10"}}, Memo: "m", Msgs: []c19Msg{{Kind: "send", To: 1, Coins: []c19Coin{{chain.Denom, "5"}}}}},
		{Form: "proto", ChainID: "evermint_80808-1", AccNum: 1, Seq: 2, Gas: 200000, Fee: []c19Coin{{chain.Denom, "10"}}, Msgs: []c19Msg{{Kind: "vote", Num: 4, Option: 1}, {Kind: "delegate", To: 2, Coins: []c19Coin{{chain.Denom, "5"}}}}},
		{Form: "amino", ChainID: "evermint_80808-1", Gas: 1, Msgs: []c19Msg{{Kind: "exec", To: 2, Inner: []c19Msg{{Kind: "send", To: 3, Coins: []c19Coin{{"ufoo", "1"}, {chain.Denom, "2"}}}}}}},
	}
	for _, d := range seedDocs {
		if bz, err := d.signBytes(app, pub); err == nil {
			f.Add(bz)
		}
	}
	for _, s := range []string{"", "{}", "{\"msgs\":[]}", "{\"msgs\":[{}]}", "{\"msgs\":[{\"type\":1}],\"msg0\":{}}", "\x0a\x00\x12\x00", "[]", "null",
		`{"account_number":"1","chain_id":"evermint_80808-1","fee":{"amount":[],"gas":"1"},"memo":"","msgs":[{"type":"cosmos-sdk/MsgSend","value":{"amount":[[]],"from_address":"x","to_address":"y"}}],"sequence":"1"}`} {
		f.Add([]byte(s))
	}
	f.Fuzz(func(t *testing.T, data []byte) {
		raw, err := eip712.GetEIP712BytesForMsg(data)
		if err != nil {
			return
		}
		again, err := eip712.GetEIP712BytesForMsg(data)
		if err != nil || !bytes.Equal(raw, again) {
			t.Fatalf("unstable rendering")
		}
		if len(raw) != 66 {
			t.Fatalf("rendering has %d bytes", len(raw))
		}
		// a key never verifies garbage as a signature over a renderable document
		if pub.VerifySignature(data, make([]byte, 64)) {
			t.Fatalf("zero signature verifies")
		}
	})
}

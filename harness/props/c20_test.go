package props

// C20 — no user input can crash a node or halt block production.
//
//  TestC20Tx        byte strings, mutated valid txs and well-typed txs with adversarial fields through every ABCI phase
//                   (CheckTx, Simulate, PrepareProposal, ProcessProposal, FinalizeBlock): no call may let a panic escape or
//                   fail as a whole, and the chain must then still produce a block.
//  TestC20Calls     arbitrary call data to every custom precompile (delivered and via eth_call) and arbitrary requests to
//                   every gRPC query of the custom modules.
//  TestC20Params    every valid Block.MaxGas / MaxBytes setting with non-empty blocks: begin/end block never fail.
//  TestC20Isolation a failing tx X from another sender between t1 and t2 never alters the results of t1 and t2.
//  FuzzC20Tx        native fuzzing of the whole tx pipeline seeded with valid txs.
//  (concurrency: c20race_test.go, built with -race)

import (
	"bytes"
	"encoding/hex"
	"fmt"
	"math/big"
	"strings"
	"sync"
	"testing"

	"cosmossdk.io/log"
	sdkmath "cosmossdk.io/math"
	abci "github.com/cometbft/cometbft/abci/types"
	cmttypes "github.com/cometbft/cometbft/types"
	sdkdb "github.com/cosmos/cosmos-db"
	"github.com/cosmos/cosmos-sdk/client"
	codectypes "github.com/cosmos/cosmos-sdk/codec/types"
	sdk "github.com/cosmos/cosmos-sdk/types"
	txtypes "github.com/cosmos/cosmos-sdk/types/tx"
	vestingtypes "github.com/cosmos/cosmos-sdk/x/auth/vesting/types"
	"github.com/cosmos/cosmos-sdk/x/authz"
	banktypes "github.com/cosmos/cosmos-sdk/x/bank/types"
	"github.com/ethereum/go-ethereum/common"
	"pgregory.net/rapid"

	"github.com/EscanBE/evermint/v12/indexer"
	cpctypes "github.com/EscanBE/evermint/v12/x/cpc/types"
	evmtypes "github.com/EscanBE/evermint/v12/x/evm/types"
	feemarkettypes "github.com/EscanBE/evermint/v12/x/feemarket/types"
	vauthtypes "github.com/EscanBE/evermint/v12/x/vauth/types"

	"verif/harness/chain"
	"verif/harness/evmgen"
)

// ----------------------------------------------------------------------------
// inputs

type c20Input struct {
	Kind string `json:"kind"` // raw | ethmut | ethpayload | cosmos | proto
	Raw  string `json:"raw,omitempty"`
	// ethmut: a valid plan + byte mutations
	Plan *TxPlan  `json:"plan,omitempty"`
	Muts []c20Mut `json:"muts,omitempty"`
	// ethpayload: a canonical wrapper around an arbitrary embedded payload
	Payload string `json:"payload,omitempty"` // hex
	From    string `json:"from,omitempty"`
	Gas     uint64 `json:"gas,omitempty"`
	Fee     string `json:"fee,omitempty"`
	// cosmos: a signed tx carrying an adversarial message
	Msg    string `json:"msg,omitempty"`
	A      string `json:"a,omitempty"`
	B      string `json:"b,omitempty"`
	N      string `json:"n,omitempty"`
	Signer int    `json:"signer,omitempty"`
	// proto: hand-made TxRaw
	Body string `json:"body,omitempty"`
	Auth string `json:"auth,omitempty"`
	Sigs int    `json:"sigs,omitempty"`
}

type c20Mut struct {
	Op  string `json:"op"` // flip | del | ins | trunc | dup
	Pos int    `json:"pos"`
	Val int    `json:"val"`
}

var c20Strings = []string{"", "evm1", "evm1qqqqqqqqqqqqqqqqqqqqqqqqqqqqqqqqv5hsrk", "cosmos1qypqxpq9qcrsszg2pvxq6rs0zqg3yyc5lzv7xu", "0x0000000000000000000000000000000000000000", "\x00", strings.Repeat("a", 300), "evmvaloper1qqqqqqqqqqqqqqqqqqqqqqqqqqqqqqqqrx4e5x", "🙂"}
var c20Numbers = []string{"0", "1", "-1", "115792089237316195423570985008687907853269984665640564039457584007913129639935", "115792089237316195423570985008687907853269984665640564039457584007913129639936", "1" + strings.Repeat("0", 80), "9223372036854775807", "18446744073709551616"}
var c20Payloads = []string{"", "00", "c0", "80", "f8", "02", "01c0", "02c0", "f86480808080808080", "b90100" + strings.Repeat("00", 256), "ff" + strings.Repeat("ff", 40),
	// a legacy tx with absurd field sizes
	"f8a0" + strings.Repeat("ff", 160)}

func genC20Input(t *rapid.T, w chain.World, label string) c20Input {
	cfg := worldCfg{}
	switch rapid.IntRange(0, 9).Draw(t, label+"_kind") {
	case 0:
		n := rapid.SampledFrom([]int{0, 1, 2, 3, 10, 100, 3000}).Draw(t, label+"_rawlen")
		return c20Input{Kind: "raw", Raw: hex.EncodeToString(rapid.SliceOfN(rapid.Byte(), n, n).Draw(t, label+"_raw"))}
	case 1, 2, 3:
		p := genEthPlan(t, w, cfg, true)
		in := c20Input{Kind: "ethmut", Plan: &p}
		for n := rapid.IntRange(0, 3).Draw(t, label+"_nmut"); n > 0; n-- {
			in.Muts = append(in.Muts, c20Mut{Op: rapid.SampledFrom([]string{"flip", "del", "ins", "trunc", "dup"}).Draw(t, label+"_mop"), Pos: rapid.IntRange(0, 4000).Draw(t, label+"_mpos"), Val: rapid.IntRange(0, 255).Draw(t, label+"_mval")})
		}
		return in
	case 4, 5:
		in := c20Input{Kind: "ethpayload", From: rapid.SampledFrom(append([]string{chain.K(0).Acc().String()}, c20Strings...)).Draw(t, label+"_from"),
			Gas: rapid.SampledFrom([]uint64{0, 1, 21000, 1 << 40, 1<<64 - 1}).Draw(t, label+"_gas"), Fee: rapid.SampledFrom(c20Numbers).Draw(t, label+"_fee")}
		if rapid.Bool().Draw(t, label+"_validinner") {
			p := genEthPlan(t, w, cfg, true)
			in.Plan = &p
		} else if rapid.Bool().Draw(t, label+"_listed") {
			in.Payload = rapid.SampledFrom(c20Payloads).Draw(t, label+"_payload")
		} else {
			in.Payload = hex.EncodeToString(rapid.SliceOfN(rapid.Byte(), 0, 200).Draw(t, label+"_payloadraw"))
		}
		return in
	case 6, 7, 8:
		return c20Input{Kind: "cosmos", Msg: rapid.SampledFrom([]string{"send", "multisend", "ethnested", "deploy20", "deploystaking", "cpcparams", "evmparams", "fmparams", "proof", "vest", "exec", "grant"}).Draw(t, label+"_msg"),
			A: rapid.SampledFrom(c20Strings).Draw(t, label+"_a"), B: rapid.SampledFrom(c20Strings).Draw(t, label+"_b"), N: rapid.SampledFrom(c20Numbers).Draw(t, label+"_n"),
			Signer: rapid.IntRange(0, 3).Draw(t, label+"_signer"), Gas: rapid.SampledFrom([]uint64{0, 50000, 400000, 1 << 62}).Draw(t, label+"_cgas")}
	default:
		return c20Input{Kind: "proto", Body: hex.EncodeToString(rapid.SliceOfN(rapid.Byte(), 0, 80).Draw(t, label+"_body")), Auth: hex.EncodeToString(rapid.SliceOfN(rapid.Byte(), 0, 40).Draw(t, label+"_auth")), Sigs: rapid.IntRange(0, 2).Draw(t, label+"_sigs")}
	}
}

func mutate(bz []byte, muts []c20Mut) []byte {
	out := append([]byte{}, bz...)
	for _, m := range muts {
		if len(out) == 0 {
			break
		}
		p := m.Pos % len(out)
		switch m.Op {
		case "flip":
			out[p] ^= byte(1 << (m.Val % 8))
		case "del":
			out = append(out[:p], out[p+1:]...)
		case "ins":
			out = append(out[:p], append([]byte{byte(m.Val)}, out[p:]...)...)
		case "trunc":
			out = out[:p]
		case "dup":
			out = append(out, out[p:]...)
		}
	}
	return out
}

func bigOrZero(s string) sdkmath.Int {
	v, ok := new(big.Int).SetString(s, 10)
	if !ok || v.BitLen() > 256 {
		return sdkmath.ZeroInt()
	}
	return sdkmath.NewIntFromBigInt(v)
}

// c20Build turns an input into tx bytes against the chain's current state (nil = not expressible, skipped).
func c20Build(c *chain.Chain, pb *planBuilder, in c20Input) (bz []byte) {
	defer func() {
		if r := recover(); r != nil {
			bz = nil // the harness could not even build it (e.g. a coin constructor refusing a negative amount)
		}
	}()
	switch in.Kind {
	case "raw":
		b, _ := hex.DecodeString(in.Raw)
		return b
	case "ethmut":
		return mutate(pb.build(*in.Plan).Bytes, in.Muts)
	case "ethpayload":
		var payload []byte
		if in.Plan != nil {
			bt := pb.build(*in.Plan)
			payload, _ = bt.Eth.MarshalBinary()
		} else {
			payload, _ = hex.DecodeString(in.Payload)
		}
		msg := &evmtypes.MsgEthereumTx{MarshalledTx: payload, From: in.From}
		any, err := codectypes.NewAnyWithValue(msg)
		if err != nil {
			return nil
		}
		ext, _ := codectypes.NewAnyWithValue(&evmtypes.ExtensionOptionsEthereumTx{})
		body := &txtypes.TxBody{Messages: []*codectypes.Any{any}, ExtensionOptions: []*codectypes.Any{ext}}
		fee := &txtypes.Fee{GasLimit: in.Gas}
		if a := bigOrZero(in.Fee); a.IsPositive() {
			fee.Amount = sdk.Coins{{Denom: chain.Denom, Amount: a}}
		}
		bb, _ := body.Marshal()
		ab, _ := (&txtypes.AuthInfo{Fee: fee}).Marshal()
		raw, _ := (&txtypes.TxRaw{BodyBytes: bb, AuthInfoBytes: ab}).Marshal()
		return raw
	case "proto":
		bb, _ := hex.DecodeString(in.Body)
		ab, _ := hex.DecodeString(in.Auth)
		raw := &txtypes.TxRaw{BodyBytes: bb, AuthInfoBytes: ab}
		for i := 0; i < in.Sigs; i++ {
			raw.Signatures = append(raw.Signatures, bytes.Repeat([]byte{byte(i + 1)}, 65))
		}
		out, _ := raw.Marshal()
		return out
	case "cosmos":
		signer := chain.K(in.Signer)
		me := signer.Acc().String()
		amt := bigOrZero(in.N)
		coin := sdk.Coin{Denom: chain.Denom, Amount: amt}
		var msgs []sdk.Msg
		switch in.Msg {
		case "send":
			msgs = []sdk.Msg{&banktypes.MsgSend{FromAddress: me, ToAddress: in.A, Amount: sdk.Coins{coin}}}
		case "multisend":
			msgs = []sdk.Msg{&banktypes.MsgMultiSend{Inputs: []banktypes.Input{{Address: me, Coins: sdk.Coins{coin}}}, Outputs: []banktypes.Output{{Address: in.A, Coins: sdk.Coins{coin}}, {Address: in.B, Coins: sdk.Coins{}}}}}
		case "ethnested":
			payload, _ := hex.DecodeString(c20Payloads[len(in.A)%len(c20Payloads)])
			ex := authz.NewMsgExec(signer.Acc(), []sdk.Msg{&evmtypes.MsgEthereumTx{MarshalledTx: payload, From: me}})
			msgs = []sdk.Msg{&ex}
		case "deploy20":
			msgs = []sdk.Msg{&cpctypes.MsgDeployErc20ContractRequest{Authority: me, Name: in.A, Symbol: in.B, Decimals: uint32(amt.BigInt().Uint64()), MinDenom: in.B}}
		case "deploystaking":
			msgs = []sdk.Msg{&cpctypes.MsgDeployStakingContractRequest{Authority: me, Symbol: in.A, Decimals: uint32(amt.BigInt().Uint64())}}
		case "cpcparams":
			msgs = []sdk.Msg{&cpctypes.MsgUpdateParams{Authority: me, NewParams: cpctypes.Params{ProtocolVersion: uint32(amt.BigInt().Uint64()), WhitelistedDeployers: []string{in.A, in.B}}}}
		case "evmparams":
			p := evmtypes.DefaultParams()
			p.EvmDenom = in.A
			p.ExtraEIPs = []int64{amt.BigInt().Int64()}
			msgs = []sdk.Msg{&evmtypes.MsgUpdateParams{Authority: me, Params: p}}
		case "fmparams":
			msgs = []sdk.Msg{&feemarkettypes.MsgUpdateParams{Authority: me, Params: feemarkettypes.Params{BaseFee: amt, MinGasPrice: sdkmath.LegacyNewDecFromInt(amt)}}}
		case "proof":
			msgs = []sdk.Msg{&vauthtypes.MsgSubmitProofExternalOwnedAccount{Submitter: me, Account: in.A, Signature: in.B}}
		case "vest":
			msgs = []sdk.Msg{&vestingtypes.MsgCreateVestingAccount{FromAddress: me, ToAddress: in.A, Amount: sdk.Coins{coin}, EndTime: amt.BigInt().Int64()}}
		case "exec":
			inner := &banktypes.MsgSend{FromAddress: me, ToAddress: in.A, Amount: sdk.Coins{coin}}
			var cur sdk.Msg = inner
			for d := 0; d < 1+len(in.B)%6; d++ {
				ex := authz.NewMsgExec(signer.Acc(), []sdk.Msg{cur})
				cur = &ex
			}
			msgs = []sdk.Msg{cur}
		case "grant":
			g, err := authz.NewMsgGrant(signer.Acc(), chain.K((in.Signer+1)%4).Acc(), authz.NewGenericAuthorization(in.A), nil)
			if err != nil {
				return nil
			}
			msgs = []sdk.Msg{g}
		}
		accNum, _, _ := c.AccountInfo(pb.ctx, signer.Acc())
		seq := pb.seq(in.Signer)
		fee := new(big.Int).Mul(new(big.Int).Add(pb.floor, big.NewInt(1)), new(big.Int).SetUint64(in.Gas%(1<<40)))
		out, err := chain.CosmosTx{Signer: in.Signer, Msgs: msgs, Gas: in.Gas, FeeAmount: fee.String()}.Build(c.TxCfg, c.World.CID(), accNum, seq)
		if err != nil {
			return nil
		}
		pb.seqs[in.Signer] = seq + 1
		return out
	}
	return nil
}

// ----------------------------------------------------------------------------
// TestC20Tx

type c20TxCase struct {
	World  chain.World  `json:"world"`
	Blocks [][]c20Input `json:"blocks"`
}

func genC20Tx(t *rapid.T) c20TxCase {
	w := genEvmWorld(t, worldCfg{Cpc: true, ModAddrs: true})
	w.Deployers = []int{0}
	cs := c20TxCase{World: w}
	for b, nb := 0, rapid.IntRange(1, 3).Draw(t, "nblocks"); b < nb; b++ {
		var ins []c20Input
		for i, n := 0, rapid.IntRange(1, 6).Draw(t, "ninputs"); i < n; i++ {
			ins = append(ins, genC20Input(t, w, fmt.Sprintf("b%di%d", b, i)))
		}
		cs.Blocks = append(cs.Blocks, ins)
	}
	return cs
}

// c20Alive checks that no panic escaped and that the chain still produces a block.
func c20Alive(o *Outcome, c *chain.Chain, what string) bool {
	if len(c.Panics) > 0 {
		o.dev("", "%s: a panic escaped the ABCI call: %s", what, truncS(c.Panics[0], 1500))
		c.Panics = nil
		return false
	}
	return true
}

func runC20Tx(cs c20TxCase) *Outcome {
	o := &Outcome{}
	c, err := chain.NewStarted(cs.World, chain.NodeOpts{})
	if err != nil {
		o.Excluded = "world rejected: " + truncS(err.Error(), 80)
		return o
	}
	defer c.Close()
	if _, err := c.RunBlock(chain.Block{Dt: 3}); err != nil {
		o.dev("", "first block failed: %v", err)
		return o
	}
	var idx *indexer.KVIndexer
	for bi, ins := range cs.Blocks {
		pb := newPlanBuilder(c)
		var txs [][]byte
		for _, in := range ins {
			if bz := c20Build(c, pb, in); bz != nil {
				txs = append(txs, bz)
				o.label("input:" + in.Kind)
			}
		}
		for i, tx := range txs {
			if _, err := c.CheckTx(tx, false); err != nil {
				o.dev("", "block %d input %d: CheckTx failed as a call: %v", bi, i, err)
			}
			c20Alive(o, c, fmt.Sprintf("block %d input %d CheckTx", bi, i))
			_, _, _ = c.Simulate(tx)
			c20Alive(o, c, fmt.Sprintf("block %d input %d Simulate", bi, i))
			if dtx, err := c.TxCfg.TxDecoder()(tx); err == nil && len(dtx.GetMsgs()) > 0 {
				o.NonTrivial = true
				o.label("decodes-as-tx")
			}
		}
		if _, err := c.PrepareProposal(txs, 1000000); err != nil {
			o.dev("", "block %d: PrepareProposal failed as a call: %v", bi, err)
		}
		c20Alive(o, c, fmt.Sprintf("block %d PrepareProposal", bi))
		if _, err := c.ProcessProposal(txs); err != nil {
			o.dev("", "block %d: ProcessProposal failed as a call: %v", bi, err)
		}
		c20Alive(o, c, fmt.Sprintf("block %d ProcessProposal", bi))
		res, err := c.RunBlock(chain.Block{Dt: 2, Txs: txs})
		if err != nil || res == nil {
			o.dev("", "block %d: FinalizeBlock/Commit failed with user-supplied txs: %v", bi, err)
			return o
		}
		c20Alive(o, c, fmt.Sprintf("block %d FinalizeBlock", bi))
		if len(res.TxResults) != len(txs) {
			o.dev("", "block %d: %d results for %d txs", bi, len(res.TxResults), len(txs))
		}
		// what one block can make a node do is bounded by the block gas limit: an Ethereum tx whose own gas limit exceeds it
		// can never fit into a block, and if it is admitted anyway the EVM runs it up to that (arbitrarily large) limit -
		// a looping contract then costs the sender a fee and every node hours of CPU and tens of GB of cache layers
		if cs.World.MaxGas > 0 {
			for i, tx := range txs {
				if !c.AnteRan[i] || c.AnteErr[i] != nil {
					continue
				}
				func() {
					defer func() { _ = recover() }()
					dtx, err := c.TxCfg.TxDecoder()(tx)
					if err != nil || len(dtx.GetMsgs()) != 1 {
						return
					}
					if em, ok := dtx.GetMsgs()[0].(*evmtypes.MsgEthereumTx); ok {
						if g := em.AsTransaction().Gas(); g > uint64(cs.World.MaxGas) {
							o.dev("", "block %d tx %d: an Ethereum tx with gas limit %d was admitted and executed although the block max gas is %d", bi, i, g, cs.World.MaxGas)
						}
					}
				}()
			}
		}
		// the committed block then reaches the node's EVM indexer service, a goroutine without recovery: whatever the
		// proposer put into the block, indexing it must return
		func() {
			defer func() {
				if r := recover(); r != nil {
					o.dev("", "block %d: indexing the committed block panicked (the indexer service goroutine has no recovery, the node dies): %v", bi, truncS(fmt.Sprint(r), 300))
				}
			}()
			if idx == nil {
				cctx := client.Context{}.WithChainID(cs.World.CID()).WithTxConfig(c.TxCfg).WithCodec(c.App.AppCodec()).WithInterfaceRegistry(c.App.InterfaceRegistry())
				idx = indexer.NewKVIndexer(sdkdb.NewMemDB(), log.NewNopLogger(), cctx)
			}
			blk := &cmttypes.Block{Header: cmttypes.Header{ChainID: cs.World.CID(), Height: c.Height, Time: c.Time}}
			for _, tx := range txs {
				blk.Data.Txs = append(blk.Data.Txs, cmttypes.Tx(tx))
			}
			_ = idx.IndexBlock(blk, res.TxResults)
			o.label("indexed-user-block")
		}()
		if _, err := c.RunBlock(chain.Block{Dt: 1}); err != nil {
			o.dev("", "block %d: the chain cannot produce the next block: %v", bi, err)
			return o
		}
	}
	return o
}

func TestC20Tx(t *testing.T) { runProp(t, "C20", genC20Tx, runC20Tx) }

// ----------------------------------------------------------------------------
// TestC20Calls — precompile call data and query requests

type c20Call struct {
	Target int    `json:"target"` // 0 erc20 native, 1 staking, 2 bech32, 3 deployed erc20 (may be absent)
	Sel    string `json:"sel"`    // method name ("" = raw selector bytes in Data)
	Data   string `json:"data"`   // hex appended after / instead of the selector
	Trunc  int    `json:"trunc"`  // bytes cut from the end of the packed call (0 = none)
	Value  string `json:"value"`
	Gas    uint64 `json:"gas"`
	Query  bool   `json:"query"` // eth_call instead of a delivered tx
}

type c20Query struct {
	Path string `json:"path"`
	Data string `json:"data"` // hex request bytes
	H    int64  `json:"h"`
}

type c20CallsCase struct {
	Calls   []c20Call  `json:"calls"`
	Queries []c20Query `json:"queries"`
}

var c20QueryPaths = []string{
	"/ethermint.evm.v1.Query/Account", "/ethermint.evm.v1.Query/CosmosAccount", "/ethermint.evm.v1.Query/ValidatorAccount", "/ethermint.evm.v1.Query/Balance",
	"/ethermint.evm.v1.Query/Storage", "/ethermint.evm.v1.Query/Code", "/ethermint.evm.v1.Query/Params", "/ethermint.evm.v1.Query/EthCall", "/ethermint.evm.v1.Query/EstimateGas",
	"/ethermint.evm.v1.Query/TraceTx", "/ethermint.evm.v1.Query/TraceBlock", "/ethermint.evm.v1.Query/BaseFee", "/ethermint.feemarket.v1.Query/Params", "/ethermint.feemarket.v1.Query/BaseFee",
	"/evermint.cpc.v1.Query/CustomPrecompiledContracts", "/evermint.cpc.v1.Query/CustomPrecompiledContract", "/evermint.cpc.v1.Query/Erc20CustomPrecompiledContractByDenom", "/evermint.cpc.v1.Query/Params",
	"/evermint.vauth.v1.Query/ProofExternalOwnedAccount", "/evermint.nosuch.v1.Query/X", "custom/evm/x", "/store/evm/key", "",
}

var (
	c20MethodsOnce sync.Once
	c20Methods     [4][]string
)

func c20MethodNames(target int) []string {
	c20MethodsOnce.Do(func() {
		for n := range cpcabiErc20().Methods {
			c20Methods[0] = append(c20Methods[0], n)
			c20Methods[3] = append(c20Methods[3], n)
		}
		for n := range cpcabiStaking().Methods {
			c20Methods[1] = append(c20Methods[1], n)
		}
		for n := range cpcabiBech32().Methods {
			c20Methods[2] = append(c20Methods[2], n)
		}
		for i := range c20Methods {
			sortStrings(c20Methods[i])
		}
	})
	return c20Methods[target]
}

// c20WellTypedRequests are adversarial but decodable requests.
func c20WellTypedRequests() []c20Query {
	m := func(path string, p interface{ Marshal() ([]byte, error) }) c20Query {
		bz, _ := p.Marshal()
		return c20Query{Path: path, Data: hex.EncodeToString(bz)}
	}
	huge := strings.Repeat("f", 5000)
	return []c20Query{
		m("/ethermint.evm.v1.Query/TraceTx", &evmtypes.QueryTraceTxRequest{}),
		m("/ethermint.evm.v1.Query/TraceTx", &evmtypes.QueryTraceTxRequest{Msg: &evmtypes.MsgEthereumTx{}, BlockNumber: -5, TraceConfig: &evmtypes.TraceConfig{Limit: -1}}),
		m("/ethermint.evm.v1.Query/TraceTx", &evmtypes.QueryTraceTxRequest{Msg: &evmtypes.MsgEthereumTx{MarshalledTx: []byte{0xc0}}, Predecessors: []*evmtypes.MsgEthereumTx{{}, {MarshalledTx: []byte{0x80}}}, BlockHash: "zz", TraceConfig: &evmtypes.TraceConfig{Tracer: "{", Timeout: "-1s", Reexec: 1 << 60}}),
		m("/ethermint.evm.v1.Query/TraceBlock", &evmtypes.QueryTraceBlockRequest{Txs: []*evmtypes.MsgEthereumTx{{}, {MarshalledTx: []byte{1, 2, 3}}}, BlockNumber: 1 << 62, TraceConfig: &evmtypes.TraceConfig{Tracer: "callTracer", TracerJsonConfig: "{"}}),
		m("/ethermint.evm.v1.Query/EthCall", &evmtypes.EthCallRequest{Args: []byte("{"), GasCap: 0}),
		m("/ethermint.evm.v1.Query/EthCall", &evmtypes.EthCallRequest{Args: []byte(`{"from":"0x0","gas":"0xffffffffffffffff","gasPrice":"0x` + huge + `","value":"0x` + huge + `"}`), GasCap: 1<<64 - 1}),
		m("/ethermint.evm.v1.Query/EthCall", &evmtypes.EthCallRequest{Args: []byte(`{"to":null,"data":"0x` + strings.Repeat("5b", 30000) + `","maxFeePerGas":"0x1","gasPrice":"0x1"}`), GasCap: 100000}),
		m("/ethermint.evm.v1.Query/EstimateGas", &evmtypes.EthCallRequest{Args: []byte(`{"data":"0x5b600056"}`), GasCap: 50000}),
		m("/ethermint.evm.v1.Query/EstimateGas", &evmtypes.EthCallRequest{Args: []byte(`{"gas":"0x1"}`), GasCap: 0}),
		m("/ethermint.evm.v1.Query/Storage", &evmtypes.QueryStorageRequest{Address: "0x01", Key: huge}),
		m("/ethermint.evm.v1.Query/Account", &evmtypes.QueryAccountRequest{Address: huge}),
		m("/ethermint.evm.v1.Query/ValidatorAccount", &evmtypes.QueryValidatorAccountRequest{ConsAddress: "evmvalcons1"}),
		m("/evermint.cpc.v1.Query/CustomPrecompiledContract", &cpctypes.QueryCustomPrecompiledContractRequest{Address: "0x"}),
		m("/evermint.cpc.v1.Query/Erc20CustomPrecompiledContractByDenom", &cpctypes.QueryErc20CustomPrecompiledContractByDenomRequest{MinDenom: huge}),
		m("/evermint.vauth.v1.Query/ProofExternalOwnedAccount", &vauthtypes.QueryProofExternalOwnedAccountRequest{Account: "evm1"}),
	}
}

func genC20Calls(t *rapid.T) c20CallsCase {
	cs := c20CallsCase{}
	for i, n := 0, rapid.IntRange(1, 8).Draw(t, "ncalls"); i < n; i++ {
		c := c20Call{Target: rapid.IntRange(0, 3).Draw(t, "target"), Value: rapid.SampledFrom([]string{"0", "0", "1", "1000000000000000000000000000"}).Draw(t, "value"),
			Gas: rapid.SampledFrom([]uint64{21000, 30000, 100000, 2000000}).Draw(t, "gas"), Query: rapid.Bool().Draw(t, "query")}
		switch rapid.IntRange(0, 3).Draw(t, "shape") {
		case 0: // raw bytes: short selectors, unknown selectors
			c.Data = hex.EncodeToString(rapid.SliceOfN(rapid.Byte(), 0, 8).Draw(t, "rawsel"))
		default:
			names := c20MethodNames(c.Target)
			c.Sel = names[rapid.IntRange(0, len(names)-1).Draw(t, "method")]
			switch rapid.IntRange(0, 3).Draw(t, "argshape") {
			case 0: // no arguments at all
			case 1: // random words
				c.Data = hex.EncodeToString(rapid.SliceOfN(rapid.Byte(), 0, 320).Draw(t, "args"))
			case 2: // words with absurd offsets / lengths
				var sb strings.Builder
				for w, nw := 0, rapid.IntRange(1, 12).Draw(t, "nwords"); w < nw; w++ {
					sb.WriteString(rapid.SampledFrom([]string{strings.Repeat("00", 32), strings.Repeat("ff", 32), strings.Repeat("00", 31) + "20", strings.Repeat("00", 31) + "40", strings.Repeat("00", 28) + "ffffffff", "7f" + strings.Repeat("ff", 31), strings.Repeat("00", 12) + strings.Repeat("11", 20)}).Draw(t, "word"))
				}
				c.Data = sb.String()
			default: // plausible address + amount
				c.Data = strings.Repeat("00", 12) + hex.EncodeToString(chain.K(rapid.IntRange(0, 3).Draw(t, "k")).Addr.Bytes()) + hex.EncodeToString(common.BigToHash(big.NewInt(int64(rapid.IntRange(0, 1000).Draw(t, "amt")))).Bytes())
				c.Trunc = rapid.SampledFrom([]int{0, 0, 1, 31, 32, 33}).Draw(t, "trunc")
			}
		}
		cs.Calls = append(cs.Calls, c)
	}
	well := c20WellTypedRequests()
	for i, n := 0, rapid.IntRange(1, 10).Draw(t, "nqueries"); i < n; i++ {
		if rapid.Bool().Draw(t, "welltyped") {
			q := well[rapid.IntRange(0, len(well)-1).Draw(t, "well")]
			q.H = rapid.SampledFrom([]int64{0, 0, 1, 2, -1, 1 << 40}).Draw(t, "qh")
			cs.Queries = append(cs.Queries, q)
		} else {
			cs.Queries = append(cs.Queries, c20Query{Path: rapid.SampledFrom(c20QueryPaths).Draw(t, "path"), Data: hex.EncodeToString(rapid.SliceOfN(rapid.Byte(), 0, 120).Draw(t, "qdata")), H: rapid.SampledFrom([]int64{0, 0, 1, -1, 1 << 40}).Draw(t, "qh2")})
		}
	}
	return cs
}

func c20CallsWorld() chain.World {
	w := chain.World{GenesisTime: 1700000000, NumVals: 2, BaseFee: "0", MinGasPrice: "0", MaxGas: -1, Erc20Native: true, StakingCpc: true, Deployers: []int{0}}
	for i := 0; i < 4; i++ {
		w.Accounts = append(w.Accounts, chain.GenAccount{Key: i, Coins: map[string]string{chain.Denom: eoaFunds, chain.SecondDenom: "1000000"}})
	}
	w.Contracts = append(w.Contracts, chain.GenContract{Addr: poolAddr(1), Code: evmgen.CompileHex(evmgen.Program{{Op: "sinc", A: "1"}}), Nonce: 1})
	return w
}

func runC20Calls(cs c20CallsCase) *Outcome {
	o := &Outcome{}
	c, err := chain.NewStarted(c20CallsWorld(), chain.NodeOpts{})
	if err != nil {
		o.dev("", "fixed world rejected: %v", err)
		return o
	}
	defer c.Close()
	// block 1: deploy a second ERC-20 precompile so that target 3 exists
	{
		accNum, seq, _ := c.AccountInfo(c.PendingCtx(), chain.K(0).Acc())
		msg := &cpctypes.MsgDeployErc20ContractRequest{Authority: chain.K(0).Acc().String(), Name: "Foo", Symbol: "FOO", Decimals: 6, MinDenom: chain.SecondDenom}
		bz, _ := chain.CosmosTx{Signer: 0, Msgs: []sdk.Msg{msg}, Gas: 500000, FeeAmount: "500000"}.Build(c.TxCfg, c.World.CID(), accNum, seq)
		if _, err := c.RunBlock(chain.Block{Dt: 3, Txs: [][]byte{bz}}); err != nil {
			o.dev("", "setup block failed: %v", err)
			return o
		}
	}
	targets := []common.Address{erc20NativeAddr(), stakingCpcAddr(), bech32CpcAddr(), erc20FooAddr()}
	pack := func(cl c20Call) []byte {
		var sel []byte
		if cl.Sel != "" {
			switch cl.Target {
			case 1:
				sel = cpcabiStaking().Methods[cl.Sel].ID
			case 2:
				sel = cpcabiBech32().Methods[cl.Sel].ID
			default:
				sel = cpcabiErc20().Methods[cl.Sel].ID
			}
			o.label("call:registered-selector")
			o.NonTrivial = true
		}
		data := append(append([]byte{}, sel...), unhexS(cl.Data)...)
		if cl.Trunc > 0 && cl.Trunc < len(data) {
			data = data[:len(data)-cl.Trunc]
		}
		return data
	}
	pb := newPlanBuilder(c)
	var txs [][]byte
	for i, cl := range cs.Calls {
		data := pack(cl)
		to := targets[cl.Target]
		if cl.Query {
			val, _ := new(big.Int).SetString(cl.Value, 10)
			_, _ = ethCall(c, chain.K(i%4).Addr, &to, data, val, cl.Gas)
			c20Alive(o, c, fmt.Sprintf("eth_call to precompile %d (%s)", cl.Target, cl.Sel))
			continue
		}
		bt := pb.build(TxPlan{Kind: "eth", From: i % 4, Type: i % 3, Gas: cl.Gas, CapOver: 1, Tip: 1, To: to.Hex(), Value: cl.Value, Data: hex.EncodeToString(data)})
		txs = append(txs, bt.Bytes)
	}
	for i, tx := range txs {
		_, _ = c.CheckTx(tx, false)
		c20Alive(o, c, fmt.Sprintf("CheckTx of precompile call %d", i))
	}
	if _, err := c.RunBlock(chain.Block{Dt: 2, Txs: txs}); err != nil {
		o.dev("", "block with precompile calls failed: %v", err)
		return o
	}
	c20Alive(o, c, "FinalizeBlock with precompile calls")
	for _, q := range cs.Queries {
		_, _ = c.Query(q.Path, unhexS(q.Data), q.H)
		c20Alive(o, c, fmt.Sprintf("query %s", q.Path))
		o.label("query")
	}
	if _, err := c.RunBlock(chain.Block{Dt: 1}); err != nil {
		o.dev("", "the chain cannot produce the next block: %v", err)
	}
	return o
}

func TestC20Calls(t *testing.T) { runProp(t, "C20", genC20Calls, runC20Calls) }

// ----------------------------------------------------------------------------
// TestC20Params — consensus parameters

type c20ParamsCase struct {
	MaxGas   int64       `json:"max_gas"`
	MaxBytes int64       `json:"max_bytes"`
	BaseFee  string      `json:"base_fee"`
	MinGas   string      `json:"min_gas"`
	Blocks   []BlockPlan `json:"blocks"`
	World    chain.World `json:"world"`
}

func genC20Params(t *rapid.T) c20ParamsCase {
	w := genEvmWorld(t, worldCfg{})
	cs := c20ParamsCase{
		MaxGas:   rapid.SampledFrom([]int64{-1, 0, 1, 2, 3, 20999, 21000, 21001, 42000, 100000, 1 << 40, 1<<63 - 1}).Draw(t, "maxgas"),
		MaxBytes: rapid.SampledFrom([]int64{-1, 1, 100, 500, 2000, 22020096, 104857600}).Draw(t, "maxbytes"),
	}
	w.MaxGas, w.MaxBytes = cs.MaxGas, cs.MaxBytes
	w.BaseFee = rapid.SampledFrom([]string{"0", "1", "7", "1000000000", "1606938044258990275541962092341162602522202993782792835301376"}).Draw(t, "basefee") // up to 2^200: fees stay below 2^256
	w.MinGasPrice = rapid.SampledFrom([]string{"0", "0.000000000000000001", "1000000000", "340282366920938463463374607431768211455"}).Draw(t, "mingas")
	cs.World = w
	for b, nb := 0, rapid.IntRange(1, 4).Draw(t, "nblocks"); b < nb; b++ {
		bp := BlockPlan{Dt: rapid.Int64Range(0, 10).Draw(t, "dt"), Proposer: rapid.IntRange(0, 2).Draw(t, "proposer")}
		for n := rapid.IntRange(1, 5).Draw(t, "ntx"); n > 0; n-- {
			if rapid.IntRange(0, 5).Draw(t, "isbank") == 0 {
				bp.Txs = append(bp.Txs, genBankPlan(t))
			} else {
				bp.Txs = append(bp.Txs, genEthPlan(t, w, worldCfg{}, false))
			}
		}
		cs.Blocks = append(cs.Blocks, bp)
	}
	return cs
}

func runC20Params(cs c20ParamsCase) *Outcome {
	o := &Outcome{}
	c, err := chain.NewStarted(cs.World, chain.NodeOpts{})
	if err != nil {
		// InitChain may refuse a parameter combination: that is a rejection, not a crash
		o.Excluded = "genesis refused: " + truncS(err.Error(), 60)
		if len(c20PanicsOf(c)) > 0 {
			o.Excluded = ""
			o.dev("", "InitChain panicked for MaxGas=%d MaxBytes=%d: %s", cs.MaxGas, cs.MaxBytes, truncS(c20PanicsOf(c)[0], 800))
		}
		return o
	}
	defer c.Close()
	executed := 0
	recs := runBlockPlans(c, cs.Blocks, nil)
	for bi, r := range recs {
		if r.Err != nil {
			o.dev("", "block %d failed under MaxGas=%d MaxBytes=%d base fee %s: %v", bi, cs.MaxGas, cs.MaxBytes, cs.World.BaseFee, r.Err)
			return o
		}
		for _, tr := range r.Txs {
			if tr.Res != nil && tr.Res.GasUsed > 0 {
				executed++
			}
		}
	}
	c20Alive(o, c, "blocks under generated consensus params")
	if _, err := c.RunBlock(chain.Block{Dt: 1}); err != nil {
		o.dev("", "the chain cannot produce an empty block under MaxGas=%d MaxBytes=%d: %v", cs.MaxGas, cs.MaxBytes, err)
	}
	o.NonTrivial = executed > 0
	o.label(fmt.Sprintf("maxgas:%d", cs.MaxGas))
	return o
}

func c20PanicsOf(c *chain.Chain) []string {
	if c == nil {
		return nil
	}
	return c.Panics
}

func TestC20Params(t *testing.T) { runProp(t, "C20", genC20Params, runC20Params) }

// ----------------------------------------------------------------------------
// TestC20Isolation

type c20IsoCase struct {
	World chain.World `json:"world"`
	T1    TxPlan      `json:"t1"`
	X     TxPlan      `json:"x"`
	T2    TxPlan      `json:"t2"`
	Pre   []TxPlan    `json:"pre"`
}

var c20IsoCfg = worldCfg{PoolEOAFrom: 3, Senders: 2, NoGasRead: false}

func genC20Iso(t *rapid.T) c20IsoCase {
	w := genEvmWorld(t, c20IsoCfg)
	w.MaxGas = -1
	cs := c20IsoCase{World: w}
	for n := rapid.IntRange(0, 2).Draw(t, "npre"); n > 0; n-- {
		cs.Pre = append(cs.Pre, genEthPlan(t, w, c20IsoCfg, false))
	}
	cs.T1 = genEthPlan(t, w, c20IsoCfg, false)
	cs.T2 = genEthPlan(t, w, c20IsoCfg, false)
	cs.T1.From, cs.T2.From = 0, 1
	// X comes from a third sender (key 2, never an address operand) and is built to fail in one of several ways
	x := genEthPlan(t, w, c20IsoCfg, true)
	x.From = 2
	switch rapid.IntRange(0, 6).Draw(t, "xfail") {
	case 0:
		x.NonceOff = 1 // rejected at admission
	case 1:
		x.Mut = "tampersig"
	case 2:
		x.Gas = 21000 // too little for anything but a plain transfer
		x.Data = "00ff"
	case 3:
		x.Value = "2000000000000000000000000" // more than the balance
	case 4:
		x.To, x.Data = "", evmgen.CompileHex(evmgen.Program{{Op: "invalid"}})
	case 5:
		x.To, x.Data, x.Gas = "", evmgen.CompileHex(evmgen.Program{{Op: "burn", N: 1 << 30}}), 100000
	default:
	}
	cs.X = x
	return cs
}

// c20TxOutcome renders what a tx did, without the fields that legitimately shift when another tx is admitted before
// it (tx index, first log index, cumulative gas).
func c20TxOutcome(tr txRecord) string {
	if tr.Res == nil {
		return "no result"
	}
	s := fmt.Sprintf("code=%d gas=%d", tr.Res.Code, tr.Res.GasUsed)
	var msgData sdk.TxMsgData
	if err := msgData.Unmarshal(tr.Res.Data); err == nil && len(msgData.MsgResponses) == 1 {
		var resp evmtypes.MsgEthereumTxResponse
		if err := resp.Unmarshal(msgData.MsgResponses[0].Value); err == nil {
			s += fmt.Sprintf(" ret=%x vmerr=%q evmgas=%d", resp.Ret, resp.VmError, resp.GasUsed)
		} else {
			s += fmt.Sprintf(" data=%x", tr.Res.Data)
		}
	} else if len(tr.Res.Data) > 0 {
		s += fmt.Sprintf(" data=%x", tr.Res.Data)
	}
	if tr.Receipt != nil && tr.Receipt.Receipt != nil {
		s += fmt.Sprintf(" status=%d vmerr=%q contract=%s logs=%s", tr.Receipt.Receipt.Status, tr.Receipt.VMError, tr.Receipt.ContractAddr, receiptLogsString(tr.Receipt.Receipt))
	}
	return s
}

func runC20Iso(cs c20IsoCase) *Outcome {
	o := &Outcome{}
	run := func(withX bool) ([]txRecord, error) {
		c, err := chain.NewStarted(cs.World, chain.NodeOpts{})
		if err != nil {
			return nil, err
		}
		defer c.Close()
		if len(cs.Pre) > 0 {
			if r := runBlockPlans(c, []BlockPlan{{Dt: 2, Txs: cs.Pre}}, nil); r[0].Err != nil {
				return nil, r[0].Err
			}
		} else if _, err := c.RunBlock(chain.Block{Dt: 2}); err != nil {
			return nil, err
		}
		plans := []TxPlan{cs.T1, cs.T2}
		if withX {
			plans = []TxPlan{cs.T1, cs.X, cs.T2}
		}
		r := runBlockPlans(c, []BlockPlan{{Dt: 3, Txs: plans}}, nil)
		if r[0].Err != nil {
			return nil, r[0].Err
		}
		if len(c.Panics) > 0 {
			return nil, fmt.Errorf("panic escaped: %s", truncS(c.Panics[0], 400))
		}
		return r[0].Txs, nil
	}
	with, err := run(true)
	if err != nil {
		o.dev("", "block [t1, X, t2] failed: %v", err)
		return o
	}
	without, err := run(false)
	if err != nil {
		o.dev("", "block [t1, t2] failed: %v", err)
		return o
	}
	x := with[1]
	xFailed := x.Res != nil && (x.Res.Code != 0 || (x.Receipt != nil && x.Receipt.HasVMError))
	if !xFailed {
		o.label("x-succeeded")
		return o
	}
	if x.admitted() {
		o.label("x-failed-after-admission")
	} else {
		o.label("x-rejected")
	}
	o.NonTrivial = true
	if a, b := c20TxOutcome(with[0]), c20TxOutcome(without[0]); a != b {
		o.dev("", "t1 differs when a failing tx follows it: %s vs %s", a, b)
	}
	if a, b := c20TxOutcome(with[2]), c20TxOutcome(without[1]); a != b {
		o.dev("", "t2 differs when a failing tx of another sender precedes it (X: %s): %s vs %s", c20TxOutcome(x), a, b)
	}
	return o
}

func TestC20Isolation(t *testing.T) { runProp(t, "C20", genC20Iso, runC20Iso) }

// ----------------------------------------------------------------------------
// FuzzC20Tx — native fuzzing of the tx pipeline

var (
	c20FuzzOnce  sync.Once
	c20FuzzChain *chain.Chain
	c20FuzzMu    sync.Mutex
)

func FuzzC20Tx(f *testing.F) {
	w := c20CallsWorld()
	c, err := chain.NewStarted(w, chain.NodeOpts{})
	if err != nil {
		f.Fatal(err)
	}
	if _, err := c.RunBlock(chain.Block{Dt: 1}); err != nil {
		f.Fatal(err)
	}
	pb := newPlanBuilder(c)
	seeds := []c20Input{
		{Kind: "ethmut", Plan: &TxPlan{Kind: "eth", From: 0, Type: 2, Gas: 100000, CapOver: 1, Tip: 1, To: poolAddr(1), Value: "1"}},
		{Kind: "ethmut", Plan: &TxPlan{Kind: "eth", From: 1, Type: 1, Gas: 300000, CapOver: 1, To: erc20NativeAddr().Hex(), Data: packErc20("transfer", chain.K(2).Addr, big.NewInt(5)), AL: []chain.ALEntry{{Addr: poolAddr(1), Slots: []string{common.BigToHash(big.NewInt(1)).Hex()}}}}},
		{Kind: "ethmut", Plan: &TxPlan{Kind: "eth", From: 2, Type: 0, Gas: 200000, CapOver: 1, To: "", Data: evmgen.CompileHex(evmgen.Program{{Op: "sstore", A: "1", B: "0x7"}, {Op: "return"}})}},
		{Kind: "cosmos", Msg: "send", A: chain.K(1).Acc().String(), N: "5", Signer: 3, Gas: 200000},
		{Kind: "cosmos", Msg: "exec", A: chain.K(1).Acc().String(), B: "xx", N: "5", Signer: 3, Gas: 400000},
		{Kind: "ethpayload", Payload: "c0", From: chain.K(0).Acc().String(), Gas: 21000, Fee: "21000"},
		{Kind: "raw", Raw: ""}, {Kind: "raw", Raw: "0a00"},
	}
	for _, s := range seeds {
		if bz := c20Build(c, pb, s); bz != nil {
			f.Add(bz)
		}
	}
	c.Close()
	f.Fuzz(func(t *testing.T, tx []byte) {
		c20FuzzOnce.Do(func() {
			var err error
			c20FuzzChain, err = chain.NewStarted(w, chain.NodeOpts{})
			if err != nil {
				panic(err)
			}
			if _, err := c20FuzzChain.RunBlock(chain.Block{Dt: 1}); err != nil {
				panic(err)
			}
		})
		c20FuzzMu.Lock()
		defer c20FuzzMu.Unlock()
		c := c20FuzzChain
		check := func(what string) {
			if len(c.Panics) > 0 {
				p := c.Panics[0]
				c.Panics = nil
				t.Fatalf("%s: panic escaped: %s", what, truncS(p, 1500))
			}
		}
		_, _ = c.CheckTx(tx, false)
		check("CheckTx")
		_, _ = c.PrepareProposal([][]byte{tx}, 100000)
		check("PrepareProposal")
		_, _ = c.ProcessProposal([][]byte{tx})
		check("ProcessProposal")
		if _, err := c.RunBlock(chain.Block{Dt: 1, Txs: [][]byte{tx}}); err != nil {
			t.Fatalf("FinalizeBlock failed: %v", err)
		}
		check("FinalizeBlock")
	})
}

var _ = abci.CodeTypeOK

package props

import (
	"math/big"
	"sort"
	"testing"

	sdk "github.com/cosmos/cosmos-sdk/types"
	authtypes "github.com/cosmos/cosmos-sdk/x/auth/types"
	banktypes "github.com/cosmos/cosmos-sdk/x/bank/types"
	"pgregory.net/rapid"

	evmtypes "github.com/EscanBE/evermint/v12/x/evm/types"

	"verif/harness/chain"
)

// C04 — Ethereum transactions never create coins.

type c04Case struct {
	World  chain.World `json:"world"`
	Blocks []BlockPlan `json:"blocks"`
}

type bankSnap struct {
	Supply   sdk.Coins
	Balances map[string]sdk.Coins // bech32 -> coins
	Accounts map[string]bool      // bech32 -> exists in x/auth
	EvmMod   sdk.Coins
}

func takeBankSnap(c *chain.Chain) func(ctx sdk.Context) interface{} {
	return func(ctx sdk.Context) interface{} {
		s := &bankSnap{Balances: map[string]sdk.Coins{}, Accounts: map[string]bool{}}
		c.App.BankKeeper.IterateTotalSupply(ctx, func(coin sdk.Coin) bool {
			s.Supply = s.Supply.Add(coin)
			return false
		})
		c.App.BankKeeper.IterateAllBalances(ctx, func(addr sdk.AccAddress, coin sdk.Coin) bool {
			k := addr.String()
			s.Balances[k] = s.Balances[k].Add(coin)
			return false
		})
		c.App.AccountKeeper.IterateAccounts(ctx, func(a sdk.AccountI) bool {
			s.Accounts[a.GetAddress().String()] = true
			return false
		})
		s.EvmMod = c.App.BankKeeper.GetAllBalances(ctx, authtypes.NewModuleAddress(evmtypes.ModuleName))
		return s
	}
}

func genC04(t *rapid.T) c04Case {
	cfg := worldCfg{MaxGasSmall: true, ModAddrs: true}
	w := genEvmWorld(t, cfg)
	if rapid.IntRange(0, 5).Draw(t, "smallblock") == 0 {
		w.MaxGas = rapid.Int64Range(100000, 2000000).Draw(t, "maxgas")
	}
	nb := rapid.IntRange(1, 3).Draw(t, "nblocks")
	var blocks []BlockPlan
	for b := 0; b < nb; b++ {
		bp := BlockPlan{Dt: rapid.Int64Range(0, 20).Draw(t, "dt"), Proposer: rapid.IntRange(0, 2).Draw(t, "proposer")}
		for n := rapid.IntRange(1, 5).Draw(t, "ntx"); n > 0; n-- {
			if rapid.IntRange(0, 9).Draw(t, "isbank") == 0 {
				bp.Txs = append(bp.Txs, genBankPlan(t))
			} else {
				bp.Txs = append(bp.Txs, genEthPlan(t, w, cfg, true))
			}
		}
		blocks = append(blocks, bp)
	}
	return c04Case{World: w, Blocks: blocks}
}

func sumBalances(m map[string]sdk.Coins) sdk.Coins {
	var total sdk.Coins
	keys := make([]string, 0, len(m))
	for k := range m {
		keys = append(keys, k)
	}
	sort.Strings(keys)
	for _, k := range keys {
		total = total.Add(m[k]...)
	}
	return total
}

func denomsOf(cs ...sdk.Coins) []string {
	m := map[string]bool{}
	for _, c := range cs {
		for _, x := range c {
			m[x.Denom] = true
		}
	}
	out := make([]string, 0, len(m))
	for d := range m {
		out = append(out, d)
	}
	sort.Strings(out)
	return out
}

func runC04(cs c04Case) *Outcome {
	o := &Outcome{}
	c, err := chain.NewStarted(cs.World, chain.NodeOpts{})
	if err != nil {
		o.Excluded = "world rejected: " + err.Error()
		return o
	}
	defer c.Close()
	recs := runBlockPlans(c, cs.Blocks, takeBankSnap(c))
	collector := authtypes.NewModuleAddress(authtypes.FeeCollectorName).String()
	for bi, br := range recs {
		if br.Err != nil {
			o.dev("", "block %d failed: %v", bi, br.Err)
			return o
		}
		for ti, tr := range br.Txs {
			if tr.Built.Eth == nil {
				continue
			}
			if tr.Pre == nil || tr.Post == nil {
				o.label("eth:not-reached")
				continue
			}
			pre, post := tr.Pre.(*bankSnap), tr.Post.(*bankSnap)
			tx := tr.Built.Eth
			price := effectivePrice(tx, br.BaseFee)
			outcome := "rejected"
			var gasUsed uint64
			if tr.admitted() {
				switch {
				case tr.Receipt != nil && tr.Res.Code == 0:
					gasUsed = tr.Receipt.GasUsed
					if tr.Receipt.HasVMError {
						outcome = "vmerror"
					} else {
						outcome = "success"
					}
				default:
					gasUsed = tx.Gas()
					outcome = "failed-after-admission"
				}
			}
			o.label("eth:" + outcome)
			if outcome == "rejected" && tr.AnteErr != nil && debugLabels {
				e := tr.AnteErr.Error()
				if len(e) > 60 {
					e = e[len(e)-60:]
				}
				o.label("rej:" + e)

			}
			if outcome == "failed-after-admission" && debugLabels {
				e := tr.Res.Log
				if len(e) > 70 {
					e = e[len(e)-70:]
				}
				o.label("faa:" + e)
			}

			if !post.EvmMod.IsZero() {
				o.dev("", "b%d t%d: evm module account holds %s after the tx", bi, ti, post.EvmMod)
			}
			// deleted accounts (evidence that a burn may legitimately have happened)
			deleted := 0
			for a := range pre.Accounts {
				if !post.Accounts[a] {
					deleted++
				}
			}
			// also: an address that had a balance but no auth account and lost it
			for a, b := range pre.Balances {
				if !pre.Accounts[a] && !b.IsZero() && post.Balances[a].IsZero() {
					deleted++
				}
			}
			refundMint := new(big.Int)
			if outcome == "success" || outcome == "vmerror" {
				refundMint.Mul(new(big.Int).SetUint64(tx.Gas()-gasUsed), price)
			}
			d2 := false
			if _, ok := knownOpen["C04/D2-refund-mint"]; ok {
				d2 = true
			}
			for _, denom := range denomsOf(pre.Supply, post.Supply) {
				before, after := pre.Supply.AmountOf(denom).BigInt(), post.Supply.AmountOf(denom).BigInt()
				delta := new(big.Int).Sub(after, before)
				// Σ balances must equal supply on both sides
				if sb := sumBalances(post.Balances).AmountOf(denom).BigInt(); sb.Cmp(after) != 0 {
					o.dev("", "b%d t%d: denom %s: sum of balances %s != supply %s after tx", bi, ti, denom, sb, after)
				}
				adj := new(big.Int).Set(delta)
				if denom == chain.Denom && delta.Sign() > 0 && refundMint.Sign() > 0 {
					// candidate for the known refund-mint finding: exactly (gasLimit-gasUsed)*price too much
					if d2 {
						adj.Sub(adj, refundMint)
						o.Devs = append(o.Devs, Dev{Key: "D2-refund-mint", Msg: "supply grew by the unused-gas refund"})
					}
				} else if denom == chain.Denom && d2 && refundMint.Sign() > 0 && deleted > 0 {
					// burn and mint in the same tx: remove the known mint before judging
					adj.Sub(adj, refundMint)
					o.Devs = append(o.Devs, Dev{Key: "D2-refund-mint", Msg: "supply grew by the unused-gas refund"})
				}
				if adj.Sign() > 0 {
					o.dev("", "b%d t%d (%s): supply of %s grew by %s (gasLimit %d gasUsed %d price %s)", bi, ti, outcome, denom, adj, tx.Gas(), gasUsed, price)
				}
				if adj.Sign() < 0 && deleted == 0 {
					o.dev("", "b%d t%d (%s): supply of %s shrank by %s although no account was destroyed", bi, ti, outcome, denom, new(big.Int).Neg(adj))
				}
				if adj.Sign() < 0 {
					o.label("burn")
				}
			}
			// fee collector gains exactly what the sender paid in fees
			if tr.admitted() {
				colΔ := new(big.Int).Sub(post.Balances[collector].AmountOf(chain.Denom).BigInt(), pre.Balances[collector].AmountOf(chain.Denom).BigInt())
				paid := new(big.Int).Mul(new(big.Int).SetUint64(gasUsed), price)
				if d2 {
					colΔ.Sub(colΔ, refundMint)
				}
				if colΔ.Cmp(paid) != 0 {
					o.dev("", "b%d t%d (%s): fee collector gained %s, sender paid %s in fees", bi, ti, outcome, colΔ, paid)
				}
			} else {
				// rejected at admission: nothing moves
				if !pre.Supply.Equal(post.Supply) {
					o.dev("", "b%d t%d: rejected tx changed supply %s -> %s", bi, ti, pre.Supply, post.Supply)
				}
			}
			if (tx.Gas() > gasUsed && price.Sign() > 0 && tr.admitted()) || deleted > 0 || outcome == "vmerror" || outcome == "failed-after-admission" {
				o.NonTrivial = true
			}
		}
	}
	_ = banktypes.ModuleName
	return o
}

func TestC04(t *testing.T) { runProp(t, "C04", genC04, runC04) }

package props

import (
	"bytes"
	"encoding/hex"
	"encoding/json"
	"fmt"
	"os"
	"os/exec"
	"path/filepath"
	"strconv"
	"testing"
	"time"

	abci "github.com/cometbft/cometbft/abci/types"
	"github.com/ethereum/go-ethereum/common"
	"github.com/ethereum/go-ethereum/common/hexutil"
	"pgregory.net/rapid"

	evmtypes "github.com/EscanBE/evermint/v12/x/evm/types"

	"verif/harness/chain"
	"verif/harness/evmgen"
)

// C01 — Block execution is a deterministic function of prior state and block.

type c01Case struct {
	Child  bool        `json:"child,omitempty"` // also re-execute in another process
	World  chain.World `json:"world"`
	Blocks []BlockPlan `json:"blocks"`
	OptsB  int         `json:"opts_b"`
}

var c01OptsB = []chain.NodeOpts{
	{},
	{MinGasPrices: "7wei", Pruning: "everything", IAVLCache: 3, Tracer: "struct", Telemetry: true},
	{MinGasPrices: "1000000000000wei", Pruning: "nothing", Tracer: "access_list", IndexEvents: []string{"message.sender"}},
	{Pruning: "everything", IAVLCache: 100000, Tracer: "struct", IndexEvents: []string{"ethereum_tx.ethereumTxHash", "tx_receipt.evmTxHash"}},
	{Telemetry: true},
}

func vestAddr(i int) string { return fmt.Sprintf("0x7e57000000000000000000000000000000000%03x", i+1) }

// addDestructors adds contracts holding a secondary denomination that self-destruct, and one caller of them all.
func addDestructors(t *rapid.T, w *chain.World) string {
	n := rapid.IntRange(2, 4).Draw(t, "ndestructors")
	var calls evmgen.Program
	for i := 0; i < n; i++ {
		addr := poolAddr(len(w.Contracts))
		ben := rapid.SampledFrom([]string{deadAddr, chain.K(3).Addr.Hex(), addr}).Draw(t, "ben")
		c := chain.GenContract{Addr: addr, Code: evmgen.CompileHex(evmgen.Program{{Op: "selfdestruct", A: ben}}), Nonce: 1,
			Coins: map[string]string{chain.SecondDenom: strconv.Itoa(100 + i)}}
		if rapid.Bool().Draw(t, "third") {
			c.Coins["ubar"] = strconv.Itoa(7 + i)
		}
		w.Contracts = append(w.Contracts, c)
		calls = append(calls, evmgen.Stmt{Op: "call", A: addr, B: "0", Sink: ""})
	}
	killer := poolAddr(len(w.Contracts))
	w.Contracts = append(w.Contracts, chain.GenContract{Addr: killer, Code: evmgen.CompileHex(calls), Nonce: 1})
	return killer
}

func genVesting(t *rapid.T, w *chain.World, i int) string {
	addr := vestAddr(i)
	kind := rapid.SampledFrom([]string{"continuous", "delayed", "periodic", "permanent"}).Draw(t, "vkind")
	start := w.GenesisTime + rapid.Int64Range(-1000, 100).Draw(t, "vstart")
	end := start + rapid.Int64Range(1, 2000).Draw(t, "vlen")
	v := &chain.VestingSpec{Kind: kind, Start: start, End: end, Original: map[string]string{chain.Denom: "1000000"}}
	if kind == "periodic" {
		v.Periods = []int64{rapid.Int64Range(1, 500).Draw(t, "p1"), rapid.Int64Range(1, 500).Draw(t, "p2")}
	}
	acc := chain.GenAccount{Key: -1, Addr: addr, Vesting: v}
	if rapid.Bool().Draw(t, "vfunded") {
		acc.Coins = map[string]string{chain.Denom: "1000000"}
	} else {
		acc.Unfunded = true
	}
	w.Accounts = append(w.Accounts, acc)
	return addr
}

func genCpcPlan(t *rapid.T, w chain.World) TxPlan {
	p := TxPlan{Kind: "eth", From: rapid.IntRange(0, nEOA-1).Draw(t, "from"), Type: rapid.IntRange(0, 2).Draw(t, "txtype"), Gas: 500000, CapOver: gwei, Tip: 1, Value: "0"}
	nv := w.NumVals
	if nv < 1 {
		nv = 1
	}
	val := chain.ValOperKey(rapid.IntRange(0, nv-1).Draw(t, "val")).Addr
	other := chain.K(rapid.IntRange(0, nEOA-1).Draw(t, "other")).Addr
	amt := bigU(rapid.Uint64Range(0, 2000000).Draw(t, "amt"))
	switch rapid.IntRange(0, 9).Draw(t, "cpck") {
	case 8: // the ERC-20 precompile of the second denomination: exists only once a history deployed it
		p.To, p.Data = erc20FooAddr().Hex(), packErc20("name")
	case 9:
		p.To, p.Data = erc20FooAddr().Hex(), packErc20("transfer", other, amt)
	case 0:
		p.To, p.Data = erc20NativeAddr().Hex(), packErc20("transfer", other, amt)
	case 1:
		p.To, p.Data = erc20NativeAddr().Hex(), packErc20("approve", other, amt)
	case 2:
		p.To, p.Data = erc20NativeAddr().Hex(), packErc20("transferFrom", other, chain.K(3).Addr, amt)
	case 3:
		p.To, p.Data = stakingCpcAddr().Hex(), packStaking("delegate", val, amt)
	case 4:
		p.To, p.Data = stakingCpcAddr().Hex(), packStaking("undelegate", val, amt)
	case 5:
		p.To, p.Data = stakingCpcAddr().Hex(), packStaking("withdrawRewards")
	case 6:
		p.To, p.Data = stakingCpcAddr().Hex(), packStaking("transfer", other, amt)
	case 7:
		p.To, p.Data = bech32CpcAddr().Hex(), packBech32("bech32EncodeAddress", "evm", other)
	}
	return p
}

func genC01(t *rapid.T) c01Case {
	cfg := worldCfg{Cpc: true, ModAddrs: true}
	w := genEvmWorld(t, cfg)
	var special []string
	if rapid.IntRange(0, 2).Draw(t, "destructors") > 0 {
		special = append(special, addDestructors(t, &w))
	}
	for i, n := 0, rapid.IntRange(0, 2).Draw(t, "nvesting"); i < n; i++ {
		special = append(special, genVesting(t, &w, i))
	}
	if rapid.IntRange(0, 5).Draw(t, "smallblock") == 5 {
		w.MaxGas = rapid.Int64Range(100000, 2000000).Draw(t, "maxgas")
	}
	w.Deployers = []int{0}
	cs := c01Case{World: w, OptsB: rapid.IntRange(0, len(c01OptsB)-1).Draw(t, "optsb")}
	// one case in eight is also re-executed in another process (other GOMAXPROCS, time zone, home, locale)
	cs.Child = rapid.IntRange(0, 7).Draw(t, "child") == 0
	for b, nb := 0, rapid.IntRange(1, 4).Draw(t, "nblocks"); b < nb; b++ {
		bp := BlockPlan{Dt: rapid.Int64Range(0, 400).Draw(t, "dt"), Proposer: rapid.IntRange(0, 2).Draw(t, "proposer")}
		for n := rapid.IntRange(0, 6).Draw(t, "ntx"); n > 0; n-- {
			switch k := rapid.IntRange(0, 11).Draw(t, "txk"); {
			case k == 11:
				bp.Txs = append(bp.Txs, TxPlan{Kind: "raw", Raw: hex.EncodeToString(rapid.SliceOfN(rapid.Byte(), 0, 60).Draw(t, "raw"))})
			case k == 10 && rapid.Bool().Draw(t, "deploy"):
				// a custom precompile deployed by the history (not by genesis)
				bp.Txs = append(bp.Txs, TxPlan{Kind: "deploy20", From: 0, Gas: 500000, CapOver: gwei})
			case k == 10:
				bp.Txs = append(bp.Txs, genBankPlan(t))
			case k >= 8:
				bp.Txs = append(bp.Txs, genCpcPlan(t, w))
			case k >= 6 && len(special) > 0:
				p := genEthPlan(t, w, cfg, false)
				p.To, p.Data, p.Value = special[rapid.IntRange(0, len(special)-1).Draw(t, "special")], "", "0"
				if p.Gas < 300000 {
					p.Gas = 300000
				}
				bp.Txs = append(bp.Txs, p)
			default:
				bp.Txs = append(bp.Txs, genEthPlan(t, w, cfg, true))
			}
		}
		cs.Blocks = append(cs.Blocks, bp)
	}
	// ties: one key delegates the same amount to every validator (which all start with the same stake), then asks the
	// staking precompile to pick one of its validators itself (transfer to self): whatever breaks the tie must be the same
	// on every node and every re-execution
	if rapid.IntRange(0, 3).Draw(t, "ties") == 0 {
		if cs.World.NumVals < 2 {
			cs.World.NumVals = 3
		}
		k := rapid.IntRange(0, nEOA-1).Draw(t, "tiekey")
		amt := bigU(rapid.Uint64Range(1, 2000000).Draw(t, "tieamt"))
		var del []TxPlan
		for v := 0; v < cs.World.NumVals; v++ {
			del = append(del, TxPlan{Kind: "eth", From: k, Type: 0, Gas: 600000, CapOver: gwei, Value: "0", To: stakingCpcAddr().Hex(), Data: packStaking("delegate", chain.ValOperKey(v).Addr, amt)})
		}
		cs.Blocks = append(cs.Blocks, BlockPlan{Dt: 5, Txs: del})
		var pick []TxPlan
		for n := rapid.IntRange(1, 3).Draw(t, "npicks"); n > 0; n-- {
			pick = append(pick, TxPlan{Kind: "eth", From: k, Type: 0, Gas: 900000, CapOver: gwei, Value: "0", To: stakingCpcAddr().Hex(),
				Data: packStaking("transfer", chain.K(k).Addr, bigU(rapid.Uint64Range(1, 1000).Draw(t, "pickamt")))})
		}
		cs.Blocks = append(cs.Blocks, BlockPlan{Dt: 7, Txs: pick})
	}
	return cs
}

func cmpEvents(where string, a, b []abci.Event) []string {
	if len(a) != len(b) {
		return []string{fmt.Sprintf("%s: %d events vs %d events", where, len(a), len(b))}
	}
	for i := range a {
		if a[i].Type != b[i].Type || len(a[i].Attributes) != len(b[i].Attributes) {
			return []string{fmt.Sprintf("%s: event %d differs: %s(%d attrs) vs %s(%d attrs)", where, i, a[i].Type, len(a[i].Attributes), b[i].Type, len(b[i].Attributes))}
		}
		for j := range a[i].Attributes {
			x, y := a[i].Attributes[j], b[i].Attributes[j]
			if x.Key != y.Key || x.Value != y.Value {
				return []string{fmt.Sprintf("%s: event %d (%s) attribute %d differs: %s=%s vs %s=%s", where, i, a[i].Type, j, x.Key, x.Value, y.Key, y.Value)}
			}
		}
	}
	return nil
}

// eventsSameMultiset reports whether two event lists are permutations of each other.
func eventsSameMultiset(a, b []abci.Event) bool {
	if len(a) != len(b) {
		return false
	}
	count := map[string]int{}
	key := func(e abci.Event) string {
		s := e.Type
		for _, at := range e.Attributes {
			s += "|" + at.Key + "=" + at.Value
		}
		return s
	}
	for _, e := range a {
		count[key(e)]++
	}
	for _, e := range b {
		count[key(e)]--
	}
	for _, v := range count {
		if v != 0 {
			return false
		}
	}
	return true
}

// cmpBlockResults compares everything the property lists.
func cmpBlockResults(bi int, a, b *abci.ResponseFinalizeBlock) (devs []Dev) {
	add := func(key, f string, args ...interface{}) {
		devs = append(devs, Dev{Key: key, Msg: fmt.Sprintf(f, args...)})
	}
	if !bytes.Equal(a.AppHash, b.AppHash) {
		add("", "block %d: app hash %x vs %x", bi, a.AppHash, b.AppHash)
	}
	if len(a.TxResults) != len(b.TxResults) {
		add("", "block %d: %d vs %d tx results", bi, len(a.TxResults), len(b.TxResults))
		return
	}
	for i := range a.TxResults {
		x, y := a.TxResults[i], b.TxResults[i]
		if x.Code != y.Code || x.Codespace != y.Codespace || !bytes.Equal(x.Data, y.Data) || x.GasWanted != y.GasWanted || x.GasUsed != y.GasUsed {
			add("", "block %d tx %d: result (code %d/%s gas %d/%d data %x log %q) vs (code %d/%s gas %d/%d data %x log %q)", bi, i,
				x.Code, x.Codespace, x.GasWanted, x.GasUsed, trunc(x.Data, 40), truncS(x.Log, 200), y.Code, y.Codespace, y.GasWanted, y.GasUsed, trunc(y.Data, 40), truncS(y.Log, 200))
		}
		if d := cmpEvents(fmt.Sprintf("block %d tx %d", bi, i), x.Events, y.Events); d != nil {
			key := ""
			if eventsSameMultiset(x.Events, y.Events) {
				key = "D11-destroy-event-order"
			}
			add(key, "%s", d[0])
		}
	}
	if d := cmpEvents(fmt.Sprintf("block %d (begin/end block)", bi), a.Events, b.Events); d != nil {
		add("", "%s", d[0])
	}
	if len(a.ValidatorUpdates) != len(b.ValidatorUpdates) {
		add("", "block %d: validator updates differ in number", bi)
	} else {
		for i := range a.ValidatorUpdates {
			if a.ValidatorUpdates[i].Power != b.ValidatorUpdates[i].Power || a.ValidatorUpdates[i].PubKey.String() != b.ValidatorUpdates[i].PubKey.String() {
				add("", "block %d: validator update %d differs", bi, i)
			}
		}
	}
	if (a.ConsensusParamUpdates == nil) != (b.ConsensusParamUpdates == nil) || (a.ConsensusParamUpdates != nil && a.ConsensusParamUpdates.String() != b.ConsensusParamUpdates.String()) {
		add("", "block %d: consensus param updates differ", bi)
	}
	return
}

// replayBlocks re-executes recorded blocks (exact bytes) on a fresh app.
func replayBlocks(w chain.World, opts chain.NodeOpts, recs []blockRecord) ([]*abci.ResponseFinalizeBlock, *chain.Chain, error) {
	c, err := chain.NewStarted(w, opts)
	if err != nil {
		return nil, nil, err
	}
	var out []*abci.ResponseFinalizeBlock
	for _, br := range recs {
		var txs [][]byte
		for _, tr := range br.Txs {
			txs = append(txs, tr.Built.Bytes)
		}
		res, err := c.RunBlock(chain.Block{Dt: br.Plan.Dt, Proposer: br.Plan.Proposer, Txs: txs})
		if err != nil {
			return out, c, err
		}
		out = append(out, res)
	}
	return out, c, nil
}

// replayBlocksNoisy re-executes recorded blocks while the node also serves non-consensus requests after every block:
// eth_call against every custom precompile and the first contracts at the latest and at the two preceding heights,
// Simulate and CheckTx of the next block's first tx.
func replayBlocksNoisy(w chain.World, recs []blockRecord) ([]*abci.ResponseFinalizeBlock, *chain.Chain, error) {
	c, err := chain.NewStarted(w, chain.NodeOpts{})
	if err != nil {
		return nil, nil, err
	}
	targets := []common.Address{erc20NativeAddr(), erc20FooAddr(), stakingCpcAddr(), bech32CpcAddr()}
	for i, ct := range w.Contracts {
		if i < 2 {
			targets = append(targets, common.HexToAddress(ct.Addr))
		}
	}
	var out []*abci.ResponseFinalizeBlock
	for bi, br := range recs {
		var txs [][]byte
		for _, tr := range br.Txs {
			txs = append(txs, tr.Built.Bytes)
		}
		res, err := c.RunBlock(chain.Block{Dt: br.Plan.Dt, Proposer: br.Plan.Proposer, Txs: txs})
		if err != nil {
			return out, c, err
		}
		out = append(out, res)
		for _, h := range []int64{c.Height - 2, c.Height - 1, c.Height} {
			if h < 1 {
				continue
			}
			for _, to := range targets {
				to := to
				from := chain.K(1).Addr
				args := evmtypes.TransactionArgs{From: &from, To: &to}
				d := hexutil.Bytes(unhexS(packErc20("name")))
				args.Data = &d
				bz, _ := json.Marshal(&args)
				req := evmtypes.EthCallRequest{Args: bz, GasCap: 1000000}
				rbz, _ := req.Marshal()
				_, _ = c.Query("/ethermint.evm.v1.Query/EthCall", rbz, h)
			}
		}
		if bi+1 < len(recs) && len(recs[bi+1].Txs) > 0 {
			_, _, _ = c.Simulate(recs[bi+1].Txs[0].Built.Bytes)
			_, _ = c.CheckTx(recs[bi+1].Txs[0].Built.Bytes, false)
		}
		c.Panics = nil
	}
	return out, c, nil
}

func classifyC01(o *Outcome, recs []blockRecord) {
	okEth, special := 0, 0
	for _, br := range recs {
		for _, tr := range br.Txs {
			if tr.Res == nil {
				continue
			}
			switch {
			case tr.Built.Eth != nil && tr.Receipt != nil && !tr.Receipt.HasVMError:
				okEth++
				o.label("eth:success")
				if tr.Built.Eth.To() == nil {
					o.label("eth:create")
				} else if to := *tr.Built.Eth.To(); to == erc20NativeAddr() || to == stakingCpcAddr() || to == bech32CpcAddr() {
					special++
					o.label("eth:precompile")
				}
			case tr.Built.Eth != nil:
				special++
				o.label("eth:failed-or-rejected")
			case tr.Built.Plan.Kind == "bank":
				special++
				o.label("cosmos")
			default:
				o.label("raw")
			}
			for _, e := range tr.Res.Events {
				if e.Type == "burn" {
					o.label("burn-event")
					special++
					break
				}
			}
		}
	}
	o.NonTrivial = okEth >= 1 && special >= 1
}

func runC01(cs c01Case) *Outcome {
	o := &Outcome{}
	a, err := chain.NewStarted(cs.World, chain.NodeOpts{})
	if err != nil {
		o.Excluded = "world rejected: " + err.Error()
		return o
	}
	defer a.Close()
	recs := runBlockPlans(a, cs.Blocks, nil)
	for bi, br := range recs {
		if br.Err != nil {
			o.dev("", "block %d failed on A: %v", bi, br.Err)
			return o
		}
	}
	classifyC01(o, recs)
	for variant, opts := range []chain.NodeOpts{{}, c01OptsB[cs.OptsB%len(c01OptsB)]} {
		resB, b, err := replayBlocks(cs.World, opts, recs)
		if b != nil {
			defer b.Close()
		}
		if err != nil {
			o.dev("", "re-execution %d failed: %v", variant, err)
			return o
		}
		for bi := range recs {
			o.Devs = append(o.Devs, cmpBlockResults(bi, recs[bi].Res, resB[bi])...)
		}
		if !bytes.Equal(a.App.LastCommitID().Hash, b.App.LastCommitID().Hash) {
			o.dev("", "final commit id differs: %x vs %x", a.App.LastCommitID().Hash, b.App.LastCommitID().Hash)
		}
		if len(o.Devs) > 0 {
			break
		}
	}
	if len(o.Devs) == 0 {
		// a node that also serves queries, simulations and mempool checks (at the latest and at older heights) between
		// blocks must produce the same results
		resN, n, err := replayBlocksNoisy(cs.World, recs)
		if n != nil {
			defer n.Close()
		}
		if err != nil {
			o.dev("", "re-execution with node-local query traffic failed: %v", err)
			return o
		}
		for bi := range recs {
			for _, d := range cmpBlockResults(bi, recs[bi].Res, resN[bi]) {
				d.Msg = "with node-local query traffic between blocks: " + d.Msg
				o.Devs = append(o.Devs, d)
			}
		}
	}
	if cs.Child && len(o.Devs) == 0 {
		resC, err := replayInChild(cs.World, c01OptsB[cs.OptsB%len(c01OptsB)], recs)
		if err != nil {
			o.Excluded = "child process could not be run: " + truncS(err.Error(), 120)
			return o
		}
		o.label("re-executed-in-child-process")
		if len(resC) != len(recs) {
			o.dev("", "child process executed %d of %d blocks", len(resC), len(recs))
			return o
		}
		for bi := range recs {
			o.Devs = append(o.Devs, cmpBlockResults(bi, recs[bi].Res, resC[bi])...)
		}
	}
	return o
}

func TestC01(t *testing.T) { runProp(t, "C01", genC01, runC01) }

// ----------------------------------------------------------------------------
// re-execution in another process

type c01ChildJob struct {
	World  chain.World    `json:"world"`
	Opts   chain.NodeOpts `json:"opts"`
	Blocks []c01ChildBlk  `json:"blocks"`
}

type c01ChildBlk struct {
	Dt       int64    `json:"dt"`
	Proposer int      `json:"proposer"`
	Txs      []string `json:"txs"`
}

func replayInChild(w chain.World, opts chain.NodeOpts, recs []blockRecord) ([]*abci.ResponseFinalizeBlock, error) {
	job := c01ChildJob{World: w, Opts: opts}
	job.Opts.DB = nil
	for _, br := range recs {
		b := c01ChildBlk{Dt: br.Plan.Dt, Proposer: br.Plan.Proposer}
		for _, tr := range br.Txs {
			b.Txs = append(b.Txs, hex.EncodeToString(tr.Built.Bytes))
		}
		job.Blocks = append(job.Blocks, b)
	}
	dir, err := os.MkdirTemp("", "verif-c01-child-")
	if err != nil {
		return nil, err
	}
	defer os.RemoveAll(dir)
	in, out := filepath.Join(dir, "job.json"), filepath.Join(dir, "out.json")
	bz, _ := json.Marshal(job)
	if err := os.WriteFile(in, bz, 0o644); err != nil {
		return nil, err
	}
	cmd := exec.Command(os.Args[0], "-test.run", "^TestC01Child$", "-test.count=1")
	cmd.Dir = dir
	cmd.Env = []string{"VERIF_C01_CHILD=" + in, "VERIF_C01_CHILD_OUT=" + out, "GOMAXPROCS=" + []string{"1", "3"}[len(recs)%2], "TZ=Pacific/Kiritimati", "HOME=" + dir, "LANG=C", "LC_ALL=C", "PATH=" + os.Getenv("PATH"), "VERIF_KNOWN=" + os.Getenv("VERIF_KNOWN")}
	if msg, err := cmd.CombinedOutput(); err != nil {
		return nil, fmt.Errorf("%v: %s", err, truncS(string(msg), 300))
	}
	raw, err := os.ReadFile(out)
	if err != nil {
		return nil, err
	}
	var hexes []string
	if err := json.Unmarshal(raw, &hexes); err != nil {
		return nil, err
	}
	var res []*abci.ResponseFinalizeBlock
	for _, h := range hexes {
		b, _ := hex.DecodeString(h)
		r := &abci.ResponseFinalizeBlock{}
		if err := r.Unmarshal(b); err != nil {
			return nil, err
		}
		res = append(res, r)
	}
	return res, nil
}

// TestC01Child is the body of the child process (it does nothing unless asked to).
func TestC01Child(t *testing.T) {
	in := os.Getenv("VERIF_C01_CHILD")
	if in == "" {
		t.Skip("only run as a child of TestC01")
	}
	bz, err := os.ReadFile(in)
	if err != nil {
		t.Fatal(err)
	}
	var job c01ChildJob
	if err := json.Unmarshal(bz, &job); err != nil {
		t.Fatal(err)
	}
	c, err := chain.NewStarted(job.World, job.Opts)
	if err != nil {
		t.Fatal(err)
	}
	defer c.Close()
	var outs []string
	for _, b := range job.Blocks {
		var txs [][]byte
		for _, h := range b.Txs {
			x, _ := hex.DecodeString(h)
			txs = append(txs, x)
		}
		res, err := c.RunBlock(chain.Block{Dt: b.Dt, Proposer: b.Proposer, Txs: txs})
		if err != nil {
			break
		}
		rb, _ := res.Marshal()
		outs = append(outs, hex.EncodeToString(rb))
	}
	ob, _ := json.Marshal(outs)
	if err := os.WriteFile(os.Getenv("VERIF_C01_CHILD_OUT"), ob, 0o644); err != nil {
		t.Fatal(err)
	}
}

// ----------------------------------------------------------------------------
// wall-clock straddle: the same history executed before and after a vesting end time
// that lies a moment after "now" must give the same results.

type c01StraddleCase struct {
	Kind     string `json:"kind"`
	Funded   bool   `json:"funded"`
	BlockAge int64  `json:"block_age"` // block time lies this many seconds before the wall clock
}

func runC01Straddle(cs c01StraddleCase) *Outcome {
	o := &Outcome{}
	now := time.Now().Unix()
	end := now + 2
	w := chain.World{GenesisTime: now - cs.BlockAge, NumVals: 1, BaseFee: "0", MinGasPrice: "0", MaxGas: -1}
	w.Accounts = append(w.Accounts, chain.GenAccount{Key: 0, Coins: map[string]string{chain.Denom: eoaFunds}})
	v := &chain.VestingSpec{Kind: cs.Kind, Start: now - cs.BlockAge - 10, End: end, Original: map[string]string{chain.Denom: "1000"}}
	if cs.Kind == "periodic" {
		v.Periods = []int64{end - v.Start}
	}
	acc := chain.GenAccount{Key: -1, Addr: vestAddr(0), Vesting: v}
	if cs.Funded {
		acc.Coins = map[string]string{chain.Denom: "1000"}
	} else {
		acc.Unfunded = true
	}
	w.Accounts = append(w.Accounts, acc)
	// a contract that touches the vesting account with a zero-value call
	toucher := poolAddr(0)
	w.Contracts = append(w.Contracts, chain.GenContract{Addr: toucher, Nonce: 1, Code: evmgen.CompileHex(evmgen.Program{{Op: "call", A: vestAddr(0), B: "0"}, {Op: "sstore", A: "1", B: "0x1"}})})
	blocks := []BlockPlan{{Dt: 1, Txs: []TxPlan{
		{Kind: "eth", From: 0, Type: 0, Gas: 300000, CapOver: 1, To: toucher, Value: "0"},
		{Kind: "eth", From: 0, Type: 0, Gas: 300000, CapOver: 1, To: vestAddr(0), Value: "0"},
	}}}
	a, err := chain.NewStarted(w, chain.NodeOpts{})
	if err != nil {
		o.Excluded = "world rejected: " + err.Error()
		return o
	}
	defer a.Close()
	recs := runBlockPlans(a, blocks, nil)
	if time.Now().Unix() >= end {
		o.Excluded = "first execution did not finish before the vesting end time"
		return o
	}
	if recs[0].Err != nil {
		o.dev("", "block failed: %v", recs[0].Err)
		return o
	}
	for time.Now().Unix() <= end {
		time.Sleep(200 * time.Millisecond)
	}
	resB, b, err := replayBlocks(w, chain.NodeOpts{}, recs)
	if b != nil {
		defer b.Close()
	}
	if err != nil {
		o.dev("", "re-execution failed: %v", err)
		return o
	}
	for _, d := range cmpBlockResults(0, recs[0].Res, resB[0]) {
		d.Key = "D1-vesting-wallclock"
		d.Msg = "execution before vs after the wall clock passed the vesting end time: " + d.Msg
		o.Devs = append(o.Devs, d)
	}
	o.NonTrivial = true
	o.label("straddle:" + cs.Kind)
	return o
}

func TestC01Straddle(t *testing.T) {
	if os.Getenv("VERIF_REPLAY") == "" && os.Getenv("VERIF_TIER") == "" {
		t.Skip("driver only")
	}
	runProp(t, "C01", func(t *rapid.T) c01StraddleCase {
		return c01StraddleCase{
			Kind:     rapid.SampledFrom([]string{"delayed", "continuous", "periodic"}).Draw(t, "kind"),
			Funded:   rapid.IntRange(0, 3).Draw(t, "funded") == 3,
			BlockAge: rapid.SampledFrom([]int64{5, 3600, 86400 * 400}).Draw(t, "age"),
		}
	}, runC01Straddle)
}

var _ = common.Address{}

func trunc(b []byte, n int) []byte {
	if len(b) > n {
		return b[:n]
	}
	return b
}

func truncS(s string, n int) string {
	if len(s) > n {
		return s[:n] + "..."
	}
	return s
}

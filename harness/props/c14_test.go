package props

// C14 — transaction indexer and JSON-RPC views agree with consensus results.
//
//  TestC14      blocks with arbitrary mixes of Ethereum / Cosmos txs and outcomes are served by an in-memory CometBFT
//               client (cometfake) to the real KVIndexer and rpc/backend.Backend; lookups by hash and by (block, index)
//               must round-trip, agree with each other and with the real block position; the JSON-RPC views
//               (GetTransactionByHash / Receipt / ByBlockNumberAndIndex, GetBlockByNumber(full), GetLogsByHeight) must
//               report the sender, status, gas used, cumulative gas, logs and indices of the consensus results;
//               unknown hashes and out-of-range indices are answered with "not found"; indexing a block again leaves
//               the index database unchanged.
//  TestC14Crash the real EVMIndexerService runs against the same fake node while blocks arrive; for a generated crash
//               point (the k-th physical database write) the service is killed, restarted on the surviving database
//               and must converge to the index of an uninterrupted run.

import (
	"bytes"
	"context"
	"fmt"
	"math/big"
	"runtime/debug"
	"sort"
	"testing"
	"time"

	"cosmossdk.io/log"
	abci "github.com/cometbft/cometbft/abci/types"
	cmtlog "github.com/cometbft/cometbft/libs/log"
	sdkdb "github.com/cosmos/cosmos-db"
	"github.com/cosmos/cosmos-sdk/client"
	"github.com/cosmos/cosmos-sdk/server"
	sdk "github.com/cosmos/cosmos-sdk/types"
	authtypes "github.com/cosmos/cosmos-sdk/x/auth/types"
	"github.com/ethereum/go-ethereum/common"
	"github.com/ethereum/go-ethereum/common/hexutil"
	ethtypes "github.com/ethereum/go-ethereum/core/types"
	"pgregory.net/rapid"

	"github.com/EscanBE/evermint/v12/indexer"
	"github.com/EscanBE/evermint/v12/rpc/backend"
	rpctypes "github.com/EscanBE/evermint/v12/rpc/types"
	evmserver "github.com/EscanBE/evermint/v12/server"

	"verif/harness/chain"
	"verif/harness/cometfake"
)

type c14Case struct {
	World  chain.World `json:"world"`
	Blocks []BlockPlan `json:"blocks"`
	Probe  []int       `json:"probe"`           // out-of-range indices / heights to ask for
	Crash  int         `json:"crash,omitempty"` // TestC14Crash: physical write at which the service dies (1-based, modulo the number of writes)
	Late   int         `json:"late,omitempty"`  // TestC14Crash: blocks produced while the service is down
}

func genC14(t *rapid.T) c14Case {
	cfg := worldCfg{MaxGasSmall: true, ModAddrs: true}
	w := genEvmWorld(t, cfg)
	if rapid.IntRange(0, 3).Draw(t, "smallblock") == 0 {
		w.MaxGas = rapid.Int64Range(150000, 1500000).Draw(t, "maxgas")
	}
	// logger contracts so that several txs of a block carry logs
	loggers := addLoggers(t, &w)
	cs := c14Case{World: w}
	for b, nb := 0, rapid.IntRange(1, 5).Draw(t, "nblocks"); b < nb; b++ {
		bp := BlockPlan{Dt: rapid.Int64Range(1, 20).Draw(t, "dt"), Proposer: rapid.IntRange(0, 2).Draw(t, "proposer")}
		for n := rapid.IntRange(0, 7).Draw(t, "ntx"); n > 0; n-- {
			switch rapid.IntRange(0, 9).Draw(t, "txk") {
			case 0:
				bp.Txs = append(bp.Txs, genBankPlan(t))
			case 1, 2:
				p := genEthPlan(t, w, cfg, false)
				p.To, p.Data, p.Value = loggers[rapid.IntRange(0, len(loggers)-1).Draw(t, "logger")], "", "0"
				if rapid.IntRange(0, 2).Draw(t, "noext") == 0 {
					// the other shape the Ethereum lane accepts: the wrapper without the (optional) extension option
					p.Mut = "noext"
				}
				bp.Txs = append(bp.Txs, p)
			default:
				bp.Txs = append(bp.Txs, genEthPlan(t, w, cfg, true))
			}
		}
		cs.Blocks = append(cs.Blocks, bp)
	}
	for i := 0; i < 3; i++ {
		cs.Probe = append(cs.Probe, rapid.IntRange(0, 12).Draw(t, "probe"))
	}
	return cs
}

// ----------------------------------------------------------------------------
// node: chain + fake CometBFT client + recorded blocks

type c14Node struct {
	c    *chain.Chain
	f    *cometfake.Client
	recs []blockRecord
	cctx client.Context
}

func newC14Node(w chain.World) (*c14Node, error) {
	c, err := chain.NewStarted(w, chain.NodeOpts{})
	if err != nil {
		return nil, err
	}
	n := &c14Node{c: c}
	n.f = cometfake.New(w.CID(), w.ConsensusParams(), func(req *abci.RequestQuery) (*abci.ResponseQuery, error) { return c.App.Query(nil, req) })
	n.cctx = client.Context{}.WithChainID(w.CID()).WithHeight(1).WithTxConfig(c.TxCfg).WithCodec(c.App.AppCodec()).
		WithInterfaceRegistry(c.App.InterfaceRegistry()).WithLegacyAmino(c.App.LegacyAmino()).WithClient(n.f).WithAccountRetriever(authtypes.AccountRetriever{})
	return n, nil
}

// produce builds and executes one planned block, serving it through the fake node afterwards.
func (n *c14Node) produce(bp BlockPlan) (blockRecord, error) {
	pb := newPlanBuilder(n.c)
	rec := blockRecord{Plan: bp}
	var txs [][]byte
	for _, p := range bp.Txs {
		if p.Kind == "replay" {
			continue
		}
		bt := pb.build(p)
		rec.Txs = append(rec.Txs, txRecord{Built: bt})
		txs = append(txs, bt.Bytes)
	}
	t := n.c.Time.Add(time.Duration(bp.Dt) * time.Second)
	nv := n.c.World.NumVals
	if nv < 1 {
		nv = 1
	}
	blk := n.f.Prepare(n.c.Height+1, t, chain.ValConsAddr(bp.Proposer%nv), txs)
	rec.Hash = blk.Hash()
	rec = execBlock(n.c, rec, bp.Dt, bp.Proposer, txs, nil)
	if rec.Err != nil {
		return rec, rec.Err
	}
	n.f.Record(blk, rec.Res)
	n.recs = append(n.recs, rec)
	return rec, nil
}

func hasEvent(r *abci.ExecTxResult, typ string) bool {
	for _, e := range r.Events {
		if e.Type == typ {
			return true
		}
	}
	return false
}

// c14Expected is what the consensus results say about one admitted Ethereum tx.
type c14Expected struct {
	Pos        int // position in the block
	EthIndex   int
	Hash       common.Hash
	From       common.Address
	Status     uint64
	GasUsed    uint64
	Cumulative uint64
	Logs       []*ethtypes.Log
	FirstLog   uint
	Failed     bool // admitted but failed outside EVM execution (no receipt)
}

// c14Expect derives the Ethereum view of a block from its consensus results alone.
func c14Expect(rec blockRecord) (admitted []c14Expected, skipped []common.Hash) {
	var cum uint64
	var nlogs uint
	for i, tr := range rec.Txs {
		if tr.Built.Eth == nil || tr.Res == nil {
			continue
		}
		if !hasEvent(tr.Res, "ethereum_tx") {
			skipped = append(skipped, tr.Built.Eth.Hash())
			continue
		}
		e := c14Expected{Pos: i, EthIndex: len(admitted), Hash: tr.Built.Eth.Hash(), From: tr.Built.Sender, FirstLog: nlogs}
		if tr.Receipt != nil && tr.Receipt.Receipt != nil {
			e.Status, e.GasUsed, e.Logs = tr.Receipt.Receipt.Status, tr.Receipt.GasUsed, tr.Receipt.Receipt.Logs
		} else {
			e.Failed, e.Status, e.GasUsed = true, 0, tr.Built.Eth.Gas()
		}
		cum += e.GasUsed
		e.Cumulative = cum
		nlogs += uint(len(e.Logs))
		admitted = append(admitted, e)
	}
	return
}

func dumpDB(db sdkdb.DB) string {
	it, err := db.Iterator(nil, nil)
	if err != nil {
		return "error: " + err.Error()
	}
	defer it.Close()
	var sb bytes.Buffer
	for ; it.Valid(); it.Next() {
		fmt.Fprintf(&sb, "%x=%x\n", it.Key(), it.Value())
	}
	return sb.String()
}

func logsEqual(a, b []*ethtypes.Log) bool {
	if len(a) != len(b) {
		return false
	}
	for i := range a {
		if a[i].Address != b[i].Address || !bytes.Equal(a[i].Data, b[i].Data) || len(a[i].Topics) != len(b[i].Topics) {
			return false
		}
		for j := range a[i].Topics {
			if a[i].Topics[j] != b[i].Topics[j] {
				return false
			}
		}
	}
	return true
}

func newC14Backend(n *c14Node, idx *indexer.KVIndexer) *backend.Backend {
	return newC14BackendCfg(n, idx, nil)
}

func newC14BackendCfg(n *c14Node, idx *indexer.KVIndexer, cfg map[string]interface{}) *backend.Backend {
	sctx := server.NewDefaultContext()
	sctx.Viper.Set("telemetry.global-labels", []interface{}{})
	for k, v := range cfg {
		sctx.Viper.Set(k, v)
	}
	return backend.NewBackend(sctx, log.NewNopLogger(), n.cctx, idx)
}

func abciTxResult(height int64, index uint32, tx []byte, res *abci.ExecTxResult) abci.TxResult {
	return abci.TxResult{Height: height, Index: index, Tx: tx, Result: *res}
}

func runC14(cs c14Case) *Outcome {
	o := &Outcome{}
	n, err := newC14Node(cs.World)
	if err != nil {
		o.Excluded = "world rejected: " + truncS(err.Error(), 80)
		return o
	}
	defer n.c.Close()
	db := sdkdb.NewMemDB()
	idx := indexer.NewKVIndexer(db, log.NewNopLogger(), n.cctx)
	be := newC14Backend(n, idx)

	for bi, bp := range cs.Blocks {
		rec, err := n.produce(bp)
		if err != nil {
			o.dev("", "block %d failed: %v", bi, err)
			return o
		}
		blk, _ := n.f.Block(nil, &rec.Height)
		if err := idx.IndexBlock(blk.Block, rec.Res.TxResults); err != nil {
			o.dev("", "IndexBlock(%d) failed: %v", rec.Height, err)
			return o
		}
	}
	// indexing any block again changes nothing
	before := dumpDB(db)
	for _, rec := range n.recs {
		blk, _ := n.f.Block(nil, &rec.Height)
		if err := idx.IndexBlock(blk.Block, rec.Res.TxResults); err != nil {
			o.dev("", "re-indexing block %d failed: %v", rec.Height, err)
		}
	}
	if after := dumpDB(db); after != before {
		o.dev("", "indexing the blocks a second time changed the index database")
	}

	for _, rec := range n.recs {
		c14CheckBlock(o, n, idx, be, rec, cs.Probe)
	}
	// unknown hashes and blocks
	unknown := common.BigToHash(big.NewInt(0xdead))
	if r, err := idx.GetByTxHash(unknown); err == nil {
		o.dev("", "indexer knows an unknown hash: %+v", r)
	}
	c14Guard(o, "GetTransactionByHash(unknown)", func() {
		if tx, err := be.GetTransactionByHash(unknown); err == nil && tx != nil {
			o.dev("", "JSON-RPC returns a transaction for an unknown hash")
		}
	})
	c14Guard(o, "GetTransactionReceipt(unknown)", func() {
		if r, err := be.GetTransactionReceipt(unknown); err == nil && r != nil {
			o.dev("", "JSON-RPC returns a receipt for an unknown hash")
		}
	})
	c14Guard(o, "GetBlockByNumber(future)", func() {
		if b, err := be.GetBlockByNumber(rpctypes.BlockNumber(n.c.Height+int64(1+cs.Probe[0])), true); err == nil && b != nil {
			o.dev("", "JSON-RPC returns a block beyond the chain head")
		}
	})
	return o
}

func c14Guard(o *Outcome, what string, f func()) {
	defer func() {
		if r := recover(); r != nil {
			o.dev("", "%s panicked: %v\n%s", what, r, truncS(string(debug.Stack()), 2500))
		}
	}()
	f()
}

// c14CheckBlock compares the index and the JSON-RPC views of one block with its consensus results.
func c14CheckBlock(o *Outcome, n *c14Node, idx *indexer.KVIndexer, be *backend.Backend, rec blockRecord, probes []int) {
	admitted, skipped := c14Expect(rec)
	h := rec.Height
	withLogs, failed := 0, 0
	for _, e := range admitted {
		e := e
		if len(e.Logs) > 0 {
			withLogs++
		}
		if e.Failed || e.Status == 0 {
			failed++
		}
		// ---- index
		r1, err := idx.GetByTxHash(e.Hash)
		if err != nil {
			o.dev("", "block %d: admitted tx %s (position %d) cannot be found by hash: %v", h, e.Hash.Hex(), e.Pos, err)
			continue
		}
		r2, err := idx.GetByBlockAndIndex(h, int32(e.EthIndex))
		if err != nil {
			o.dev("", "block %d: admitted tx at Ethereum index %d cannot be found by (block, index): %v", h, e.EthIndex, err)
			continue
		}
		if *r1 != *r2 {
			o.dev("", "block %d: lookups by hash and by (block, index %d) disagree: %+v vs %+v", h, e.EthIndex, r1, r2)
		}
		if r1.Height != h || int(r1.TxIndex) != e.Pos || int(r1.EthTxIndex) != e.EthIndex {
			o.dev("", "block %d: index entry of %s says height %d position %d eth-index %d, the block has it at position %d eth-index %d", h, e.Hash.Hex(), r1.Height, r1.TxIndex, r1.EthTxIndex, e.Pos, e.EthIndex)
		}
		if r1.Failed != (e.Failed || e.Status == 0) {
			o.dev("", "block %d: index entry of %s says failed=%v, consensus status %d (executed=%v)", h, e.Hash.Hex(), r1.Failed, e.Status, !e.Failed)
		}
		// ---- JSON-RPC
		c14Guard(o, "GetTransactionByHash", func() {
			tx, err := be.GetTransactionByHash(e.Hash)
			if err != nil || tx == nil {
				o.dev("", "block %d: GetTransactionByHash(%s) = %v, %v", h, e.Hash.Hex(), tx, err)
				return
			}
			if tx.From != e.From || tx.TransactionIndex == nil || uint64(*tx.TransactionIndex) != uint64(e.EthIndex) || tx.BlockNumber == nil || tx.BlockNumber.ToInt().Int64() != h || tx.Hash != e.Hash {
				o.dev("", "block %d: GetTransactionByHash(%s) reports from %s index %v block %v; consensus: from %s index %d", h, e.Hash.Hex(), tx.From.Hex(), ptrU64(tx.TransactionIndex), tx.BlockNumber, e.From.Hex(), e.EthIndex)
			}
		})
		c14Guard(o, "GetTransactionByBlockNumberAndIndex", func() {
			tx, err := be.GetTransactionByBlockNumberAndIndex(rpctypes.BlockNumber(h), hexutil.Uint(e.EthIndex))
			if err != nil || tx == nil || tx.Hash != e.Hash {
				o.dev("", "block %d: GetTransactionByBlockNumberAndIndex(%d) does not return tx %s (got %v, %v)", h, e.EthIndex, e.Hash.Hex(), tx, err)
			}
		})
		c14Guard(o, "GetTransactionReceipt", func() {
			rc, err := be.GetTransactionReceipt(e.Hash)
			if err != nil || rc == nil {
				o.dev("", "block %d: GetTransactionReceipt(%s) = %v, %v (admitted tx, executed=%v)", h, e.Hash.Hex(), rc, err, !e.Failed)
				return
			}
			if uint64(rc.Status) != e.Status {
				o.dev("", "block %d tx %d: receipt status %d, consensus %d", h, e.EthIndex, rc.Status, e.Status)
			}
			if uint64(rc.GasUsed) != e.GasUsed {
				o.dev("", "block %d tx %d: receipt gas used %d, consensus %d", h, e.EthIndex, rc.GasUsed, e.GasUsed)
			}
			if uint64(rc.CumulativeGasUsed) != e.Cumulative {
				key := ""
				if e.Failed {
					key = "D20-crafted-receipt-cumulative-gas"
				}
				o.dev(key, "block %d tx %d (executed=%v): receipt cumulative gas %d, consensus running sum %d", h, e.EthIndex, !e.Failed, rc.CumulativeGasUsed, e.Cumulative)
			}
			if uint64(rc.TransactionIndex) != uint64(e.EthIndex) || rc.From != e.From || uint64(rc.BlockNumber) != uint64(h) || rc.TransactionHash != e.Hash {
				o.dev("", "block %d tx %d: receipt says index %d from %s block %d", h, e.EthIndex, rc.TransactionIndex, rc.From.Hex(), rc.BlockNumber)
			}
			if !logsEqual(rc.Logs, e.Logs) {
				o.dev("", "block %d tx %d: receipt has %d logs, consensus %d (or contents differ)", h, e.EthIndex, len(rc.Logs), len(e.Logs))
			}
			for j, l := range rc.Logs {
				if l.Index != e.FirstLog+uint(j) || l.TxIndex != uint(e.EthIndex) || l.TxHash != e.Hash || l.BlockNumber != uint64(h) {
					o.dev("", "block %d tx %d log %d: positional fields index=%d txIndex=%d block=%d, expected index=%d txIndex=%d", h, e.EthIndex, j, l.Index, l.TxIndex, l.BlockNumber, e.FirstLog+uint(j), e.EthIndex)
				}
			}
		})
	}
	// txs that never passed admission are not part of the Ethereum view and must not shift anybody's index
	for _, hs := range skipped {
		if r, err := idx.GetByTxHash(hs); err == nil {
			o.dev("", "block %d: tx %s never passed admission but is indexed: %+v", h, hs.Hex(), r)
		}
	}
	// out of range
	for _, p := range probes {
		k := len(admitted) + p
		if r, err := idx.GetByBlockAndIndex(h, int32(k)); err == nil {
			o.dev("", "block %d: indexer returns %+v for out-of-range Ethereum index %d (block has %d)", h, r, k, len(admitted))
		}
		c14Guard(o, "GetTransactionByBlockNumberAndIndex(out of range)", func() {
			if tx, err := be.GetTransactionByBlockNumberAndIndex(rpctypes.BlockNumber(h), hexutil.Uint(k)); err == nil && tx != nil {
				o.dev("", "block %d: JSON-RPC returns tx %s for out-of-range index %d (block has %d Ethereum txs)", h, tx.Hash.Hex(), k, len(admitted))
			}
		})
	}
	// block view
	c14Guard(o, "GetBlockByNumber", func() {
		blk, err := be.GetBlockByNumber(rpctypes.BlockNumber(h), true)
		if err != nil || blk == nil {
			o.dev("", "GetBlockByNumber(%d, full) = %v, %v", h, blk, err)
			return
		}
		txs, _ := blk["transactions"].([]interface{})
		var got []common.Hash
		for _, x := range txs {
			if rt, ok := x.(*rpctypes.RPCTransaction); ok {
				got = append(got, rt.Hash)
				if rt.TransactionIndex == nil || int(*rt.TransactionIndex) != len(got)-1 {
					o.dev("", "GetBlockByNumber(%d): tx %d carries transactionIndex %v", h, len(got)-1, ptrU64(rt.TransactionIndex))
				}
			}
		}
		var want []common.Hash
		for _, e := range admitted {
			want = append(want, e.Hash)
		}
		if fmt.Sprint(got) != fmt.Sprint(want) {
			o.dev("", "GetBlockByNumber(%d, full) lists %d txs %v, consensus Ethereum view has %d: %v", h, len(got), got, len(want), want)
		}
		if gu, ok := blk["gasUsed"].(*hexutil.Big); ok && len(admitted) > 0 {
			if gu.ToInt().Uint64() != admitted[len(admitted)-1].Cumulative {
				o.label("block-gas-used-differs-from-eth-sum") // block gas also counts Cosmos txs: informational only
			}
		}
	})
	// by-hash views agree with by-number views
	c14Guard(o, "by-hash views", func() {
		rb, err := n.f.Block(context.Background(), &h)
		if err != nil {
			return
		}
		hash := common.BytesToHash(rb.BlockID.Hash)
		if cnt := be.GetBlockTransactionCountByNumber(rpctypes.BlockNumber(h)); cnt == nil || int(*cnt) != len(admitted) {
			o.dev("", "GetBlockTransactionCountByNumber(%d) = %v, consensus Ethereum view has %d txs", h, cnt, len(admitted))
		}
		if cnt := be.GetBlockTransactionCountByHash(hash); cnt == nil || int(*cnt) != len(admitted) {
			o.dev("", "GetBlockTransactionCountByHash(block %d) = %v, consensus Ethereum view has %d txs", h, cnt, len(admitted))
		}
		blk, err := be.GetBlockByHash(hash, false)
		if err != nil || blk == nil {
			o.dev("", "GetBlockByHash(block %d) = %v, %v", h, blk, err)
		} else if txs, _ := blk["transactions"].([]interface{}); len(txs) != len(admitted) {
			o.dev("", "GetBlockByHash(block %d) lists %d txs, consensus Ethereum view has %d", h, len(txs), len(admitted))
		}
		for _, e := range admitted {
			tx, err := be.GetTransactionByBlockHashAndIndex(hash, hexutil.Uint(e.EthIndex))
			if err != nil || tx == nil || tx.Hash != e.Hash {
				o.dev("", "block %d: GetTransactionByBlockHashAndIndex(%d) does not return tx %s (got %v, %v)", h, e.EthIndex, e.Hash.Hex(), tx, err)
			}
		}
		byHash, err1 := be.GetLogs(hash)
		byNum, err2 := be.GetLogsByHeight(&h)
		if (err1 == nil) != (err2 == nil) || len(byHash) != len(byNum) {
			o.dev("", "block %d: GetLogs(hash) and GetLogsByHeight disagree (%d vs %d groups, errs %v / %v)", h, len(byHash), len(byNum), err1, err2)
		}
		if unknown, err := be.GetBlockByHash(common.BigToHash(big.NewInt(0xbeef)), true); err == nil && unknown != nil {
			o.dev("", "GetBlockByHash(unknown hash) returns a block")
		}
	})
	c14Guard(o, "GetLogsByHeight", func() {
		logs, err := be.GetLogsByHeight(&h)
		if err != nil {
			o.dev("", "GetLogsByHeight(%d): %v", h, err)
			return
		}
		var flat, want []*ethtypes.Log
		for _, l := range logs {
			flat = append(flat, l...)
		}
		for _, e := range admitted {
			want = append(want, e.Logs...)
		}
		if !logsEqual(flat, want) {
			o.dev("", "GetLogsByHeight(%d) returns %d logs, consensus receipts carry %d (or contents differ)", h, len(flat), len(want))
		}
		for j, l := range flat {
			if l.Index != uint(j) {
				o.dev("", "GetLogsByHeight(%d): log %d has index %d", h, j, l.Index)
			}
		}
		// every positional field of the logs view: Ethereum tx index, tx hash, block number (also in blocks where Cosmos
		// txs or dropped txs sit before the Ethereum tx)
		if len(flat) == len(want) {
			j := 0
			for _, e := range admitted {
				for range e.Logs {
					l := flat[j]
					if l.TxIndex != uint(e.EthIndex) || l.TxHash != e.Hash || l.BlockNumber != uint64(h) {
						o.dev("", "GetLogsByHeight(%d): log %d says tx index %d, tx %s, block %d; the consensus view has it in Ethereum tx %d (%s) of block %d", h, j, l.TxIndex, l.TxHash.Hex(), l.BlockNumber, e.EthIndex, e.Hash.Hex(), h)
					}
					if e.Pos != e.EthIndex {
						o.label("logs-view:tx-after-non-ethereum-tx")
					}
					j++
				}
			}
		}
	})
	if len(admitted) >= 2 && failed >= 1 {
		o.NonTrivial = true
		o.label("block:multi-eth-with-failure")
	}
	if withLogs >= 2 {
		o.label("block:logs-in-several-txs")
	}
	if len(skipped) > 0 && len(admitted) > 0 {
		o.label("block:skipped-and-admitted")
	}
}

func ptrU64(p *hexutil.Uint64) interface{} {
	if p == nil {
		return nil
	}
	return uint64(*p)
}

func TestC14(t *testing.T) { runProp(t, "C14", genC14, runC14) }

// ----------------------------------------------------------------------------
// crash / restart of the indexer service

// faultDB counts physical writes (a batch commit or a direct set/delete is one write) and, once armed write number
// `killAt` is reached, drops that write and every later one: the process is dead, nothing it does reaches the disk.
type faultDB struct {
	sdkdb.DB
	writes  *int
	killAt  int
	dead    *bool
	onDeath func()
}

func (f *faultDB) write() bool {
	if *f.dead {
		return false
	}
	*f.writes++
	if f.killAt > 0 && *f.writes == f.killAt {
		*f.dead = true
		if f.onDeath != nil {
			f.onDeath()
		}
		return false
	}
	return true
}

func (f *faultDB) Set(k, v []byte) error {
	if !f.write() {
		return nil
	}
	return f.DB.Set(k, v)
}
func (f *faultDB) SetSync(k, v []byte) error {
	if !f.write() {
		return nil
	}
	return f.DB.SetSync(k, v)
}
func (f *faultDB) Delete(k []byte) error {
	if !f.write() {
		return nil
	}
	return f.DB.Delete(k)
}
func (f *faultDB) DeleteSync(k []byte) error {
	if !f.write() {
		return nil
	}
	return f.DB.DeleteSync(k)
}
func (f *faultDB) NewBatch() sdkdb.Batch { return &faultBatch{Batch: f.DB.NewBatch(), f: f} }
func (f *faultDB) NewBatchWithSize(n int) sdkdb.Batch {
	return &faultBatch{Batch: f.DB.NewBatchWithSize(n), f: f}
}

type faultBatch struct {
	sdkdb.Batch
	f   *faultDB
	ops int
}

func (b *faultBatch) Set(k, v []byte) error { b.ops++; return b.Batch.Set(k, v) }
func (b *faultBatch) Delete(k []byte) error { b.ops++; return b.Batch.Delete(k) }

// an empty batch writes nothing: it is not a point at which the database changes
func (b *faultBatch) Write() error {
	if b.ops > 0 && !b.f.write() {
		return nil
	}
	return b.Batch.Write()
}
func (b *faultBatch) WriteSync() error {
	if b.ops > 0 && !b.f.write() {
		return nil
	}
	return b.Batch.WriteSync()
}

// runService starts the real indexer service on db and returns a stop function.
func runService(n *c14Node, db sdkdb.DB) (*indexer.KVIndexer, func()) {
	idx := indexer.NewKVIndexer(db, log.NewNopLogger(), n.cctx)
	svc := evmserver.NewEVMIndexerService(idx, n.f.View())
	svc.SetLogger(cmtlog.NewNopLogger())
	done := make(chan struct{})
	go func() {
		defer close(done)
		defer func() { _ = recover() }()
		_ = svc.Start()
	}()
	return idx, func() {
		_ = svc.Stop()
		select {
		case <-done:
		case <-time.After(5 * time.Second):
		}
	}
}

// waitReady waits until a freshly started service has caught up with the node (it marks the indexer ready).
func waitReady(idx *indexer.KVIndexer) bool {
	for i := 0; i < 3000; i++ {
		if idx.IsReady() {
			return true
		}
		time.Sleep(10 * time.Millisecond)
	}
	return false
}

// waitIndexed waits until the service has been handed the block at height (or the process is dead, or gives up).
func waitIndexed(idx *indexer.KVIndexer, height int64, dead *bool) bool {
	for i := 0; i < 3000; i++ {
		if dead != nil && *dead {
			return true
		}
		if h, err := idx.GetLastRequestIndexedBlock(); err == nil && h >= height {
			return true
		}
		time.Sleep(10 * time.Millisecond)
	}
	return false
}

func genC14Crash(t *rapid.T) c14Case {
	cs := genC14(t)
	cs.Crash = rapid.IntRange(1, 12).Draw(t, "crash")
	cs.Late = rapid.IntRange(0, 2).Draw(t, "late")
	return cs
}

func runC14Crash(cs c14Case) *Outcome {
	o := &Outcome{}
	// a wait that gives up (busy machine) makes the case inconclusive, never a violation
	slow := false
	waitReady := func(idx *indexer.KVIndexer) bool {
		ok := waitReady(idx)
		slow = slow || !ok
		return ok
	}
	waitIndexed := func(idx *indexer.KVIndexer, height int64, dead *bool) bool {
		ok := waitIndexed(idx, height, dead)
		slow = slow || !ok
		return ok
	}
	n, err := newC14Node(cs.World)
	if err != nil {
		o.Excluded = "world rejected: " + truncS(err.Error(), 80)
		return o
	}
	defer n.c.Close()
	// the chain has one block before any service starts (a node never starts its indexer at height 0)
	if _, err := n.produce(BlockPlan{Dt: 1}); err != nil {
		o.dev("", "first block failed: %v", err)
		return o
	}

	// --- uninterrupted run
	refDB := sdkdb.NewMemDB()
	refWrites, refDead := 0, false
	refIdx, stopRef := runService(n, &faultDB{DB: refDB, writes: &refWrites, dead: &refDead})
	// --- run that will be killed at write #k
	crashDB := sdkdb.NewMemDB()
	writes, dead := 0, false
	fdb := &faultDB{DB: crashDB, writes: &writes, dead: &dead, killAt: 0}
	idx1, stop1 := runService(n, fdb)
	if !waitReady(refIdx) || !waitReady(idx1) {
		stopRef()
		stop1()
		o.Excluded = "service did not become ready in time"
		return o
	}
	// count the writes of the whole history first? No: the kill point is generated directly and taken modulo the
	// number of blocks that carry Ethereum txs (each such block is exactly one physical write).
	ethBlocks := 0
	for _, bp := range cs.Blocks {
		for _, p := range bp.Txs {
			if p.Kind == "eth" {
				ethBlocks++
				break
			}
		}
	}
	if ethBlocks == 0 {
		stopRef()
		stop1()
		o.label("no-eth-block")
		return o
	}
	fdb.killAt = 1 + (cs.Crash-1)%ethBlocks

	restarted := false
	emptyAtRestart := false
	var idx2 *indexer.KVIndexer
	stop2 := func() {}
	late := 0
	for bi, bp := range cs.Blocks {
		if _, err := n.produce(bp); err != nil {
			o.dev("", "block %d failed: %v", bi, err)
			stopRef()
			stop1()
			stop2()
			return o
		}
		waitIndexed(refIdx, n.c.Height, nil)
		if !restarted {
			waitIndexed(idx1, n.c.Height, &dead)
			if dead {
				// the process died at write #killAt: stop it; blocks may go by before the node is restarted
				stop1()
				if late < cs.Late {
					late++
					continue
				}
				emptyAtRestart = dumpDB(crashDB) == ""
				idx2, stop2 = runService(n, &faultDB{DB: crashDB, writes: new(int), dead: new(bool)})
				restarted = true
				waitReady(idx2)
				continue
			}
		}
		if restarted {
			waitIndexed(idx2, n.c.Height, nil)
		}
	}
	if dead && !restarted {
		emptyAtRestart = dumpDB(crashDB) == ""
		idx2, stop2 = runService(n, &faultDB{DB: crashDB, writes: new(int), dead: new(bool)})
		restarted = true
		waitReady(idx2)
	}
	// one more block so that both services have something to catch up on after the restart
	if _, err := n.produce(BlockPlan{Dt: 1}); err == nil {
		waitIndexed(refIdx, n.c.Height, nil)
		if restarted {
			waitIndexed(idx2, n.c.Height, nil)
		} else {
			waitIndexed(idx1, n.c.Height, nil)
		}
	}
	stopRef()
	stop1()
	stop2()
	if slow {
		o.Excluded = "a service did not catch up within its wait budget (busy machine): nothing compared"
		return o
	}
	if !dead {
		o.label("crash:not-reached")
		return o
	}
	o.label("crash:restarted")
	o.NonTrivial = true
	want, got := dumpDB(refDB), dumpDB(crashDB)
	if want != got {
		// listed finding D12: a restart on an index that is still empty starts from the node's latest block
		key := ""
		if emptyAtRestart {
			key = "D12-indexer-empty-restart"
		}
		o.dev(key, "crash at index write #%d (restart after %d more blocks): the restarted service converged to a different index:\n want %d entries, got %d entries; first difference: %s", fdb.killAt, late, countLines(want), countLines(got), firstDiffLine(want, got))
	}
	return o
}

func countLines(s string) int { return bytes.Count([]byte(s), []byte("\n")) }

func firstDiffLine(a, b string) string {
	x, y := bytes.Split([]byte(a), []byte("\n")), bytes.Split([]byte(b), []byte("\n"))
	m := map[string]bool{}
	for _, l := range y {
		m[string(l)] = true
	}
	var missing []string
	for _, l := range x {
		if !m[string(l)] {
			missing = append(missing, string(l))
		}
	}
	sort.Strings(missing)
	if len(missing) > 0 {
		return "missing " + truncS(missing[0], 120)
	}
	return "extra entries"
}

func TestC14Crash(t *testing.T) { runProp(t, "C14", genC14Crash, runC14Crash) }

var _ = sdk.AccAddress{}

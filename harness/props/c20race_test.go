package props

// C20 (concurrency) — generated schedules of concurrent subscribe / unsubscribe / publish / query operations on the event
// bus, the JSON-RPC filter system (fed by an in-process CometBFT websocket endpoint) and the indexer. Built with -race.
// Oracle: no panic anywhere in the process (a panic in a service goroutine kills the test binary: the driver reports the
// pending case), no data-race report, every operation returns (no deadlock).

import (
	"context"
	"encoding/json"
	"fmt"
	"math/big"
	"net/http"
	"net/http/httptest"
	"os"
	"runtime"
	"strings"
	"sync"
	"sync/atomic"
	"testing"
	"time"

	"cosmossdk.io/log"
	coretypes "github.com/cometbft/cometbft/rpc/core/types"
	cmttypes "github.com/cometbft/cometbft/types"
	sdkdb "github.com/cosmos/cosmos-db"
	"github.com/ethereum/go-ethereum/common"
	ethfilters "github.com/ethereum/go-ethereum/eth/filters"
	"github.com/ethereum/go-ethereum/rpc"
	"github.com/gorilla/websocket"
	"pgregory.net/rapid"

	"github.com/EscanBE/evermint/v12/indexer"
	evrpc "github.com/EscanBE/evermint/v12/rpc"
	"github.com/EscanBE/evermint/v12/rpc/ethereum/pubsub"
	"github.com/EscanBE/evermint/v12/rpc/namespaces/ethereum/eth/filters"
	serverconfig "github.com/EscanBE/evermint/v12/server/config"

	"verif/harness/chain"
	"verif/harness/cometfake"
	"verif/harness/evmgen"
)

type c20RaceOp struct {
	Op    string `json:"op"` // bus: sub | unsub | pub | addtopic | rmtopic ; filters: newfilter | newblockfilter | uninstall | changes | logs | tx | header ; indexer: index | byhash | byindex
	Topic int    `json:"topic,omitempty"`
	Crit  int    `json:"crit,omitempty"`
	N     int    `json:"n,omitempty"`
	Msg   int    `json:"msg,omitempty"` // ws: index into the message templates
}

type c20RaceCase struct {
	Mode    string        `json:"mode"` // bus | filters | indexer
	Workers [][]c20RaceOp `json:"workers"`
}

func genC20Race(t *rapid.T) c20RaceCase {
	cs := c20RaceCase{Mode: rapid.SampledFrom([]string{"bus", "filters", "filters", "indexer", "ws", "ws"}).Draw(t, "mode")}
	var ops []string
	switch cs.Mode {
	case "bus":
		ops = []string{"sub", "sub", "unsub", "unsub", "pub", "pub", "pub", "addtopic", "rmtopic"}
	case "filters":
		ops = []string{"newfilter", "newfilter", "newblockfilter", "newpendingfilter", "uninstall", "uninstall", "changes", "tx", "tx", "tx", "header", "header", "logs",
			"subheads", "sublogs", "subpending", "unsubrpc"}
	case "ws":
		ops = []string{"wssub", "wssub", "wssub", "wsunsub", "wsunsub", "wsraw", "wsraw", "tx", "tx", "header", "header", "wsreconnect"}
	default:
		ops = []string{"index", "index", "byhash", "byhash", "byindex", "last"}
	}
	for w, nw := 0, rapid.IntRange(2, 6).Draw(t, "nworkers"); w < nw; w++ {
		var list []c20RaceOp
		for i, n := 0, rapid.IntRange(3, 25).Draw(t, "nops"); i < n; i++ {
			list = append(list, c20RaceOp{Op: rapid.SampledFrom(ops).Draw(t, "op"), Topic: rapid.IntRange(0, 2).Draw(t, "topic"), Crit: rapid.IntRange(0, 7).Draw(t, "crit"), N: rapid.IntRange(0, 5).Draw(t, "n"),
				Msg: rapid.IntRange(0, 63).Draw(t, "msg")})
		}
		cs.Workers = append(cs.Workers, list)
	}
	return cs
}

// raceEnv is built once per process: a short chain whose blocks carry logs with 0..4 topics.
type raceEnv struct {
	node   *c14Node
	events []coretypes.ResultEvent // Tx events of all Ethereum txs
	blocks []blockRecord
}

var (
	raceOnce sync.Once
	raceE    *raceEnv
)

func getRaceEnv() *raceEnv {
	raceOnce.Do(func() {
		w := chain.World{GenesisTime: 1700000000, NumVals: 1, BaseFee: "0", MinGasPrice: "0", MaxGas: -1}
		for i := 0; i < 4; i++ {
			w.Accounts = append(w.Accounts, chain.GenAccount{Key: i, Coins: map[string]string{chain.Denom: eoaFunds}})
		}
		// loggers emitting logs with every topic count
		for i := 0; i < 5; i++ {
			w.Contracts = append(w.Contracts, chain.GenContract{Addr: poolAddr(i), Nonce: 1, Code: evmgen.CompileHex(evmgen.Program{{Op: "log", N: uint64(i), M: 8}, {Op: "log", N: uint64((i + 2) % 5), M: 0}})})
		}
		n, err := newC14Node(w)
		if err != nil {
			panic(err)
		}
		e := &raceEnv{node: n}
		for b := 0; b < 4; b++ {
			bp := BlockPlan{Dt: 2}
			for i := 0; i < 5; i++ {
				bp.Txs = append(bp.Txs, TxPlan{Kind: "eth", From: i % 4, Type: i % 3, Gas: 200000, CapOver: 1, Tip: 1, To: poolAddr((b + i) % 5), Value: "0"})
			}
			rec, err := n.produce(bp)
			if err != nil {
				panic(err)
			}
			e.blocks = append(e.blocks, rec)
			for i, tr := range rec.Txs {
				if tr.Res == nil || tr.Built.Eth == nil {
					continue
				}
				evs := map[string][]string{"tm.event": {"Tx"}, "message.module": {"evm"}}
				e.events = append(e.events, coretypes.ResultEvent{Events: evs, Data: cmttypes.EventDataTx{TxResult: abciTxResult(rec.Height, uint32(i), tr.Built.Bytes, tr.Res)}})
			}
		}
		raceE = e
	})
	return raceE
}

var c20Topics = func() [][][]common.Hash {
	t := func(i int) common.Hash { return common.BigToHash(new(big.Int).SetUint64(uint64(0xa0 + i))) }
	a, b := t(0), t(1)
	return [][][]common.Hash{
		nil, {{a}}, {{a}, {b}}, {nil, {b}}, {{a}, nil, {t(2)}}, {nil, nil, nil, {t(3)}}, {{a, b}, nil}, {nil, {a, b}, nil, nil},
	}
}()

func runC20Race(cs c20RaceCase) *Outcome {
	o := &Outcome{}
	var panics int32
	var firstPanic atomic.Value
	guard := func(f func()) {
		defer func() {
			if r := recover(); r != nil {
				atomic.AddInt32(&panics, 1)
				firstPanic.CompareAndSwap(nil, fmt.Sprint(r))
			}
		}()
		f()
	}
	var wg sync.WaitGroup
	var overlap int32
	run := func(worker func(ops []c20RaceOp)) bool {
		for _, ops := range cs.Workers {
			ops := ops
			wg.Add(1)
			go func() {
				defer wg.Done()
				guard(func() { worker(ops) })
			}()
		}
		done := make(chan struct{})
		go func() { wg.Wait(); close(done) }()
		select {
		case <-done:
			return true
		case <-time.After(90 * time.Second):
		}
		// not back yet: on a busy machine that alone means nothing. Give it a long idle wait and call it a deadlock only
		// if it persists and goroutines are parked inside the code under test.
		select {
		case <-done:
			return true
		case <-time.After(240 * time.Second):
		}
		buf := make([]byte, 1<<21)
		buf = buf[:runtime.Stack(buf, true)]
		dump := string(buf)
		parked := false
		for _, g := range strings.Split(dump, "\n\n") {
			blocked := strings.Contains(g, "[chan send") || strings.Contains(g, "[chan receive") || strings.Contains(g, "[sync.Mutex.Lock") || strings.Contains(g, "[sync.RWMutex") || strings.Contains(g, "[semacquire") || strings.Contains(g, "[select")
			// only the harness's own worker goroutines count: service loops are parked in their select by design
			if blocked && strings.Contains(g, "props.runC20Race") && (strings.Contains(g, "evermint/v12/rpc/") || strings.Contains(g, "evermint/v12/indexer")) && strings.Contains(g, "minutes]") {
				parked = true
			}
		}
		if parked {
			o.dev("", "operations did not return within 330 s and goroutines are parked inside the code under test (deadlock):\n%s", truncS(dump, 8000))
		} else {
			o.Excluded = "operations did not return in time on a busy machine (no goroutine parked in the code under test)"
		}
		return false
	}
	o.label("mode:" + cs.Mode)

	switch cs.Mode {
	case "bus":
		bus := pubsub.NewEventBus()
		topics := []string{"t0", "t1", "t2"}
		srcs := make([]chan coretypes.ResultEvent, len(topics))
		var srcMu sync.Mutex // the harness owns the source channels: publishing and closing never overlap by its own fault
		closed := make([]bool, len(topics))
		for i, name := range topics {
			srcs[i] = make(chan coretypes.ResultEvent)
			_ = bus.AddTopic(name, srcs[i])
		}
		var unsubbing int32
		run(func(ops []c20RaceOp) {
			type subn struct {
				ch    <-chan coretypes.ResultEvent
				unsub pubsub.UnsubscribeFunc
			}
			var mine []subn
			for _, op := range ops {
				name := topics[op.Topic%len(topics)]
				switch op.Op {
				case "sub":
					if ch, unsub, err := bus.Subscribe(name); err == nil {
						mine = append(mine, subn{ch, unsub})
					}
				case "unsub":
					if len(mine) > 0 {
						atomic.AddInt32(&unsubbing, 1)
						mine[0].unsub()
						atomic.AddInt32(&unsubbing, -1)
						mine = mine[1:]
					}
				case "pub":
					srcMu.Lock()
					if !closed[op.Topic%len(topics)] {
						select {
						case srcs[op.Topic%len(topics)] <- coretypes.ResultEvent{Query: name}:
							if atomic.LoadInt32(&unsubbing) > 0 {
								atomic.AddInt32(&overlap, 1)
							}
						case <-time.After(50 * time.Millisecond):
						}
					}
					srcMu.Unlock()
					for _, s := range mine {
						select {
						case <-s.ch:
						default:
						}
					}
				case "addtopic":
					srcMu.Lock()
					i := op.Topic % len(topics)
					if closed[i] {
						srcs[i] = make(chan coretypes.ResultEvent)
						if bus.AddTopic(name, srcs[i]) == nil {
							closed[i] = false
						}
					}
					srcMu.Unlock()
				case "rmtopic":
					srcMu.Lock()
					i := op.Topic % len(topics)
					if !closed[i] {
						closed[i] = true
						close(srcs[i]) // the producer side closes: the bus must close its subscribers and forget the topic
					}
					srcMu.Unlock()
				}
				_ = bus.Topics()
			}
			for _, s := range mine {
				s.unsub()
			}
		})
		srcMu.Lock()
		for i := range srcs {
			if !closed[i] {
				close(srcs[i])
			}
		}
		srcMu.Unlock()

	case "filters":
		env := getRaceEnv()
		ws, err := cometfake.NewWSNode()
		if err != nil {
			o.Excluded = "cannot start the websocket endpoint: " + err.Error()
			return o
		}
		defer ws.Close()
		wsc, err := ws.Client()
		if err != nil {
			o.Excluded = "cannot connect the websocket client: " + err.Error()
			return o
		}
		defer func() { _ = wsc.Stop() }()
		idx := indexer.NewKVIndexer(sdkdb.NewMemDB(), log.NewNopLogger(), env.node.cctx)
		for _, rec := range env.blocks {
			blk, _ := env.node.f.Block(context.Background(), &rec.Height)
			_ = idx.IndexBlock(blk.Block, rec.Res.TxResults)
		}
		be := newC14BackendCfg(env.node, idx, map[string]interface{}{"json-rpc.filter-cap": 200, "json-rpc.logs-cap": 10000, "json-rpc.block-range-cap": 10000})
		api := filters.NewPublicAPI(log.NewNopLogger(), env.node.cctx, wsc, be)
		// the push API (eth_subscribe) goes through a real go-ethereum RPC server: its handlers hand their request
		// context to the event system, which is how the filter system ends up with a context that is already done
		srv := rpc.NewServer()
		if err := srv.RegisterName("eth", api); err != nil {
			o.Excluded = "cannot register the filter API: " + err.Error()
			return o
		}
		defer srv.Stop()
		var installing int32
		run(func(ops []c20RaceOp) {
			var ids []rpc.ID
			type rsub struct {
				sub *rpc.ClientSubscription
			}
			var rsubs []rsub
			client := rpc.DialInProc(srv)
			pushSub := func(args ...interface{}) {
				ch := make(chan json.RawMessage, 256)
				ctx, cancel := context.WithTimeout(context.Background(), 20*time.Second)
				defer cancel()
				atomic.AddInt32(&installing, 1)
				sub, err := client.EthSubscribe(ctx, ch, args...)
				atomic.AddInt32(&installing, -1)
				if err != nil {
					return
				}
				rsubs = append(rsubs, rsub{sub})
				go func() {
					for {
						select {
						case <-ch:
						case <-sub.Err():
							return
						}
					}
				}()
			}
			for _, op := range ops {
				switch op.Op {
				case "subheads":
					pushSub("newHeads")
				case "subpending":
					pushSub("newPendingTransactions")
				case "sublogs":
					crit := map[string]interface{}{"topics": c20Topics[op.Crit%len(c20Topics)]}
					if op.N%2 == 1 {
						crit["address"] = common.HexToAddress(poolAddr(op.N % 5))
					}
					pushSub("logs", crit)
				case "unsubrpc":
					if len(rsubs) > 0 {
						atomic.AddInt32(&installing, 1)
						rsubs[0].sub.Unsubscribe()
						atomic.AddInt32(&installing, -1)
						rsubs = rsubs[1:]
					}
				case "newpendingfilter":
					atomic.AddInt32(&installing, 1)
					if id := api.NewPendingTransactionFilter(); !strings.HasPrefix(string(id), "error") {
						ids = append(ids, id)
					}
					atomic.AddInt32(&installing, -1)
				case "newfilter":
					crit := ethfilters.FilterCriteria{Topics: c20Topics[op.Crit%len(c20Topics)]}
					if op.N%2 == 1 {
						crit.Addresses = []common.Address{common.HexToAddress(poolAddr(op.N % 5))}
					}
					atomic.AddInt32(&installing, 1)
					if id, err := api.NewFilter(crit); err == nil {
						ids = append(ids, id)
					}
					atomic.AddInt32(&installing, -1)
				case "newblockfilter":
					atomic.AddInt32(&installing, 1)
					if id := api.NewBlockFilter(); id != "" {
						ids = append(ids, id)
					}
					atomic.AddInt32(&installing, -1)
				case "uninstall":
					if len(ids) > 0 {
						atomic.AddInt32(&installing, 1)
						api.UninstallFilter(ids[0])
						atomic.AddInt32(&installing, -1)
						ids = ids[1:]
					}
				case "changes":
					if len(ids) > 0 {
						_, _ = api.GetFilterChanges(ids[len(ids)-1])
					}
				case "logs":
					ctx, cancel := context.WithTimeout(context.Background(), 5*time.Second)
					_, _ = api.GetLogs(ctx, ethfilters.FilterCriteria{Topics: c20Topics[op.Crit%len(c20Topics)]})
					cancel()
				case "tx":
					ev := env.events[(op.N*7+op.Crit)%len(env.events)]
					if ws.PublishMatching("'Tx'", ev.Data, ev.Events) > 0 && atomic.LoadInt32(&installing) > 0 {
						atomic.AddInt32(&overlap, 1)
					}
				case "header":
					rec := env.blocks[op.N%len(env.blocks)]
					blk, _ := env.node.f.Block(context.Background(), &rec.Height)
					ws.PublishMatching("NewBlockHeader", cmttypes.EventDataNewBlockHeader{Header: blk.Block.Header}, map[string][]string{"tm.event": {"NewBlockHeader"}})
				}
			}
			time.Sleep(20 * time.Millisecond)
			// the push client goes away first (its request contexts end with it), then the polling filters are removed
			client.Close()
			for _, id := range ids {
				api.UninstallFilter(id)
			}
		})
		// deliveries after everybody has left: the node keeps sending events of queries whose cancellation never arrived
		for i := 0; i < 3; i++ {
			ev := env.events[i%len(env.events)]
			ws.PublishMatching("'Tx'", ev.Data, ev.Events)
			blk, _ := env.node.f.Block(context.Background(), &env.blocks[0].Height)
			ws.PublishMatching("NewBlockHeader", cmttypes.EventDataNewBlockHeader{Header: blk.Block.Header}, map[string][]string{"tm.event": {"NewBlockHeader"}})
		}
		time.Sleep(50 * time.Millisecond) // let in-flight deliveries hit the (un)installed subscriptions

	case "ws":
		// the node's own websocket server (rpc/websockets.go): raw client messages - well-formed and not - decide what its
		// read loop and its per-subscription goroutines do, while the consensus node keeps delivering events
		env := getRaceEnv()
		wsn, err := cometfake.NewWSNode()
		if err != nil {
			o.Excluded = "cannot start the websocket endpoint: " + err.Error()
			return o
		}
		defer wsn.Close()
		wsc, err := wsn.Client()
		if err != nil {
			o.Excluded = "cannot connect the websocket client: " + err.Error()
			return o
		}
		defer func() { _ = wsc.Stop() }()
		cfg := serverconfig.DefaultConfig()
		cfg.JSONRPC.Address = "127.0.0.1:1" // forwarded (non-subscription) requests find nobody: an error reply, nothing more
		handler, ok := evrpc.NewWebsocketsServer(env.node.cctx, log.NewNopLogger(), wsc, cfg).(http.Handler)
		if !ok {
			o.Excluded = "the websocket server is not an http.Handler"
			return o
		}
		ts := httptest.NewServer(handler)
		defer ts.Close()
		url := "ws" + strings.TrimPrefix(ts.URL, "http") + "/"
		type wsClient struct {
			conn *websocket.Conn
			mu   sync.Mutex
			subs []string
			done chan struct{}
		}
		dial := func() *wsClient {
			conn, _, err := websocket.DefaultDialer.Dial(url, nil)
			if err != nil {
				return nil
			}
			cl := &wsClient{conn: conn, done: make(chan struct{})}
			go func() {
				defer close(cl.done)
				for {
					_, bz, err := conn.ReadMessage()
					if err != nil {
						return
					}
					var m map[string]interface{}
					if json.Unmarshal(bz, &m) != nil {
						continue // nothing to assert on the content of replies
					}
					if id, ok := m["result"].(string); ok && strings.HasPrefix(id, "0x") {
						cl.mu.Lock()
						cl.subs = append(cl.subs, id)
						cl.mu.Unlock()
					}
				}
			}()
			return cl
		}
		var installing int32
		run(func(ops []c20RaceOp) {
			cl := dial()
			if cl == nil {
				return
			}
			send := func(msg string) {
				_ = cl.conn.SetWriteDeadline(time.Now().Add(5 * time.Second))
				_ = cl.conn.WriteMessage(websocket.TextMessage, []byte(msg))
			}
			for _, op := range ops {
				switch op.Op {
				case "wssub":
					atomic.AddInt32(&installing, 1)
					send(c20WSSubs[op.Msg%len(c20WSSubs)])
					atomic.AddInt32(&installing, -1)
				case "wsunsub":
					cl.mu.Lock()
					id := "0xdeadbeef"
					if len(cl.subs) > 0 && op.N%4 != 0 {
						id = cl.subs[0]
						cl.subs = cl.subs[1:]
					}
					cl.mu.Unlock()
					atomic.AddInt32(&installing, 1)
					send(fmt.Sprintf(`{"jsonrpc":"2.0","id":%d,"method":"eth_unsubscribe","params":["%s"]}`, op.N+1, id))
					atomic.AddInt32(&installing, -1)
				case "wsraw":
					send(c20WSRaw[op.Msg%len(c20WSRaw)])
				case "wsreconnect":
					_ = cl.conn.Close()
					<-cl.done
					if cl = dial(); cl == nil {
						return
					}
				case "tx":
					ev := env.events[(op.N*7+op.Crit)%len(env.events)]
					if wsn.PublishMatching("'Tx'", ev.Data, ev.Events) > 0 && atomic.LoadInt32(&installing) > 0 {
						atomic.AddInt32(&overlap, 1)
					}
				case "header":
					rec := env.blocks[op.N%len(env.blocks)]
					blk, _ := env.node.f.Block(context.Background(), &rec.Height)
					if wsn.PublishMatching("NewBlockHeader", cmttypes.EventDataNewBlockHeader{Header: blk.Block.Header}, map[string][]string{"tm.event": {"NewBlockHeader"}}) > 0 && atomic.LoadInt32(&installing) > 0 {
						atomic.AddInt32(&overlap, 1)
					}
				}
			}
			time.Sleep(20 * time.Millisecond)
			_ = cl.conn.Close()
			<-cl.done
		})
		// events keep arriving after every client has gone
		for i := 0; i < 3; i++ {
			ev := env.events[i%len(env.events)]
			wsn.PublishMatching("'Tx'", ev.Data, ev.Events)
			blk, _ := env.node.f.Block(context.Background(), &env.blocks[0].Height)
			wsn.PublishMatching("NewBlockHeader", cmttypes.EventDataNewBlockHeader{Header: blk.Block.Header}, map[string][]string{"tm.event": {"NewBlockHeader"}})
		}
		time.Sleep(50 * time.Millisecond)

	case "indexer":
		env := getRaceEnv()
		idx := indexer.NewKVIndexer(sdkdb.NewMemDB(), log.NewNopLogger(), env.node.cctx)
		var indexing int32
		run(func(ops []c20RaceOp) {
			for _, op := range ops {
				rec := env.blocks[op.N%len(env.blocks)]
				switch op.Op {
				case "index":
					blk, _ := env.node.f.Block(context.Background(), &rec.Height)
					atomic.AddInt32(&indexing, 1)
					_ = idx.IndexBlock(blk.Block, rec.Res.TxResults)
					atomic.AddInt32(&indexing, -1)
				case "byhash":
					if atomic.LoadInt32(&indexing) > 0 {
						atomic.AddInt32(&overlap, 1)
					}
					for _, tr := range rec.Txs {
						if tr.Built.Eth != nil {
							if r, err := idx.GetByTxHash(tr.Built.Eth.Hash()); err == nil && r.Height != rec.Height {
								o.dev("", "concurrent lookup returned height %d for a tx of block %d", r.Height, rec.Height)
							}
						}
					}
				case "byindex":
					_, _ = idx.GetByBlockAndIndex(rec.Height, int32(op.Crit))
				case "last":
					_, _ = idx.LastIndexedBlock()
					_, _ = idx.GetLastRequestIndexedBlock()
					_ = idx.IsReady()
				}
			}
		})
	}
	if p := atomic.LoadInt32(&panics); p > 0 {
		o.dev("", "%d operations panicked, first: %v", p, firstPanic.Load())
	}
	if atomic.LoadInt32(&overlap) > 0 {
		o.NonTrivial = true
		o.label("overlap")
	}
	return o
}

// TestC20Race records the case it is about to run: if a service goroutine panics, the process dies and the driver
// reports that case.
func TestC20Race(t *testing.T) {
	pending := os.Getenv("VERIF_FAIL_OUT")
	runProp(t, "C20", genC20Race, func(cs c20RaceCase) *Outcome {
		if pending != "" && os.Getenv("VERIF_REPLAY") == "" {
			bz, _ := json.Marshal(cs)
			out, _ := json.MarshalIndent(failFile{Property: "C20", Test: "TestC20Race", Case: bz, Deviations: []Dev{{Msg: "the process died while this schedule was running (panic in a service goroutine or fatal race); see the log"}}}, "", " ")
			_ = os.WriteFile(pending+".pending", out, 0o644)
		}
		o := runC20Race(cs)
		if pending != "" {
			_ = os.Remove(pending + ".pending")
		}
		return o
	})
}

// c20WSSubs are eth_subscribe messages: every documented kind, criteria of every accepted shape, and shapes the
// hand-written parameter decoding of the server has to refuse.
var c20WSSubs = []string{
	`{"jsonrpc":"2.0","id":1,"method":"eth_subscribe","params":["newHeads"]}`,
	`{"jsonrpc":"2.0","id":2,"method":"eth_subscribe","params":["logs"]}`,
	`{"jsonrpc":"2.0","id":3,"method":"eth_subscribe","params":["logs",{}]}`,
	`{"jsonrpc":"2.0","id":4,"method":"eth_subscribe","params":["logs",{"address":"0xc0de000000000000000000000000000000000001"}]}`,
	`{"jsonrpc":"2.0","id":5,"method":"eth_subscribe","params":["logs",{"address":["0xc0de000000000000000000000000000000000001","0xc0de000000000000000000000000000000000002"],"topics":["0x00000000000000000000000000000000000000000000000000000000000000a0"]}]}`,
	`{"jsonrpc":"2.0","id":6,"method":"eth_subscribe","params":["logs",{"topics":[null,["0x00000000000000000000000000000000000000000000000000000000000000a0","0x00000000000000000000000000000000000000000000000000000000000000a1"]]}]}`,
	`{"jsonrpc":"2.0","id":7,"method":"eth_subscribe","params":["logs",{"topics":[[],null,"0x00000000000000000000000000000000000000000000000000000000000000a2"]}]}`,
	`{"jsonrpc":"2.0","id":8,"method":"eth_subscribe","params":["newPendingTransactions"]}`,
	`{"jsonrpc":"2.0","id":9,"method":"eth_subscribe","params":["syncing"]}`,
	`{"jsonrpc":"2.0","id":"10","method":"eth_subscribe","params":["newHeads"]}`,
	`{"jsonrpc":"2.0","id":11,"method":"eth_subscribe","params":["logs",5]}`,
	`{"jsonrpc":"2.0","id":12,"method":"eth_subscribe","params":["logs",{"address":5}]}`,
	`{"jsonrpc":"2.0","id":13,"method":"eth_subscribe","params":["logs",{"address":["0xc0de000000000000000000000000000000000001",7]}]}`,
	`{"jsonrpc":"2.0","id":14,"method":"eth_subscribe","params":["logs",{"topics":"x"}]}`,
	`{"jsonrpc":"2.0","id":15,"method":"eth_subscribe","params":["logs",{"topics":[5]}]}`,
	`{"jsonrpc":"2.0","id":16,"method":"eth_subscribe","params":["logs",{"topics":[["0xa0",5]]}]}`,
	`{"jsonrpc":"2.0","id":17,"method":"eth_subscribe","params":["logs",{"topics":[{"a":1}]}]}`,
	`{"jsonrpc":"2.0","id":18,"method":"eth_subscribe","params":["logs",{"address":"nothex","topics":["zz"]}]}`,
	`{"jsonrpc":"2.0","id":19,"method":"eth_subscribe","params":["logs",{"address":null,"topics":null,"fromBlock":"0x1","toBlock":"latest"}]}`,
	`{"jsonrpc":"2.0","id":20,"method":"eth_subscribe","params":["logs",[{"address":"0xc0de000000000000000000000000000000000001"}]]}`,
	`{"jsonrpc":"2.0","id":21,"method":"eth_subscribe","params":[5]}`,
	`{"jsonrpc":"2.0","id":22,"method":"eth_subscribe","params":[]}`,
	`{"jsonrpc":"2.0","id":23,"method":"eth_subscribe","params":"newHeads"}`,
	`{"jsonrpc":"2.0","id":24,"method":"eth_subscribe"}`,
	`{"jsonrpc":"2.0","id":25,"method":"eth_subscribe","params":["unknownKind"]}`,
	`{"jsonrpc":"2.0","id":26,"method":"eth_subscribe","params":[null]}`,
	`{"jsonrpc":"2.0","id":27,"method":"eth_subscribe","params":["newHeads",{"includeTransactions":true}]}`,
	`{"jsonrpc":"2.0","id":1e400,"method":"eth_subscribe","params":["newHeads"]}`,
}

// c20WSRaw are messages that are not subscription requests at all.
var c20WSRaw = []string{
	``, `{`, `[]`, `[{}]`, `null`, `5`, `"eth_subscribe"`, `{"method":5}`, `{"id":1}`, `{"jsonrpc":"2.0","id":{},"method":"eth_subscribe","params":["newHeads"]}`,
	`{"jsonrpc":"2.0","id":null,"method":"eth_unsubscribe","params":["0x1"]}`, `{"jsonrpc":"2.0","id":1,"method":"eth_unsubscribe","params":[5]}`,
	`{"jsonrpc":"2.0","id":1,"method":"eth_unsubscribe","params":[]}`, `{"jsonrpc":"2.0","id":1,"method":"eth_unsubscribe","params":{"a":1}}`,
	`{"jsonrpc":"2.0","id":1,"method":"eth_blockNumber","params":[]}`, `[{"jsonrpc":"2.0","id":1,"method":"eth_blockNumber","params":[]},{"jsonrpc":"2.0","id":2,"method":"eth_subscribe","params":["newHeads"]}]`,
	`{"jsonrpc":"2.0","id":"abc","method":"eth_subscribe","params":["newHeads"]}`, `{"jsonrpc":"2.0","id":-1,"method":"eth_subscribe","params":["logs",{"topics":[[[[[[[[]]]]]]]]}]}`,
	"\x00\x01\x02", `{"jsonrpc":"2.0","id":1,"method":"eth_subscribe","params":["logs",{"topics":[` + strings.Repeat(`"0xa0",`, 300) + `"0xa1"]}]}`,
}

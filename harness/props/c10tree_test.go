package props

import (
	"encoding/hex"
	"fmt"
	"math/big"
	"testing"

	sdk "github.com/cosmos/cosmos-sdk/types"
	"github.com/ethereum/go-ethereum/common"
	ethtypes "github.com/ethereum/go-ethereum/core/types"
	"pgregory.net/rapid"

	cpctypes "github.com/EscanBE/evermint/v12/x/cpc/types"

	"verif/harness/chain"
	"verif/harness/evmgen"
)

// C10 part 2 — ERC-20 precompile calls made from contracts, many per transaction, inside nested call frames.
//
// One transaction runs a generated call tree: every inner node is a call frame (a relay contract running a script,
// ending in STOP, REVERT or INVALID), every leaf an ERC-20 precompile call made by the contract that runs the frame,
// whose failure is ignored by the caller (try / catch). A reference ERC-20 ledger (balances, supply, allowances,
// log list, with a snapshot per frame) predicts the result of every single call, the final ledger and the exact log
// list; the chain's bank balances, supply, allowance store, receipt logs and the per-call success flags the relays
// record in their storage must agree.

type c10Node struct {
	// leaf
	Op  string `json:"op,omitempty"` // transfer | transferFrom | approve | burn | burnFrom ; "" = frame
	A   int    `json:"a,omitempty"`  // holder index: owner (transferFrom, burnFrom)
	B   int    `json:"b,omitempty"`  // holder index: recipient / spender
	Amt string `json:"amt,omitempty"`
	// frame
	C    int       `json:"c,omitempty"`   // relay contract 0..2 that runs the frame
	End  string    `json:"end,omitempty"` // stop | revert | invalid
	Kids []c10Node `json:"kids,omitempty"`
}

type c10Grant struct {
	Owner   int    `json:"owner"`
	Spender int    `json:"spender"`
	Amt     string `json:"amt"`
}

type c10TreeCase struct {
	Token  int        `json:"token"`
	Grants []c10Grant `json:"grants"` // allowances in place before the transaction
	Root   c10Node    `json:"root"`
}

// holders: 0..2 EOAs (keys 0..2), 3..5 the relay contracts, 6 the zero address, 7 an address without account.
const c10NHolders = 8

func c10Relay(i int) common.Address { return common.HexToAddress(poolAddr(0x70 + i)) }

func c10Holder(i int) common.Address {
	switch {
	case i <= 2:
		return chain.K(i).Addr
	case i <= 5:
		return c10Relay(i - 3)
	case i == 6:
		return common.Address{}
	}
	return freshAddr
}

func genC10Node(t *rapid.T, depth int, budget *int, contract int, pairs *[][2]int) c10Node {
	amts := []string{"0", "1", "max", "bal", "bal+1", "half", "alw", "alw+1", "alw-1", "half", "alw"}
	if depth < 3 && *budget > 2 && rapid.IntRange(0, 9).Draw(t, "frame") < 3 {
		n := c10Node{C: rapid.IntRange(0, 2).Draw(t, "contract"), End: rapid.SampledFrom([]string{"stop", "stop", "revert", "revert", "revert", "invalid"}).Draw(t, "end")}
		*budget--
		for k := rapid.IntRange(1, 4).Draw(t, "nkids"); k > 0 && *budget > 0; k-- {
			n.Kids = append(n.Kids, genC10Node(t, depth+1, budget, n.C, pairs))
		}
		return n
	}
	*budget--
	n := c10Node{Op: rapid.SampledFrom([]string{"transfer", "transferFrom", "transferFrom", "approve", "approve", "burn", "burnFrom"}).Draw(t, "op"),
		A: rapid.IntRange(0, c10NHolders-1).Draw(t, "a"), B: rapid.IntRange(0, c10NHolders-1).Draw(t, "b")}
	if rapid.IntRange(0, 3).Draw(t, "amtk") == 0 {
		n.Amt = fmt.Sprintf("%d", rapid.Uint64Range(2, 6000).Draw(t, "amtv"))
	} else {
		n.Amt = rapid.SampledFrom(amts).Draw(t, "amt")
	}
	me := 3 + contract
	switch n.Op {
	case "approve":
		if rapid.Bool().Draw(t, "torelay") {
			n.B = rapid.IntRange(3, 5).Draw(t, "spender")
		}
		if n.Amt == "0" || n.Amt == "alw" {
			n.Amt = fmt.Sprintf("%d", rapid.Uint64Range(1, 5000).Draw(t, "grant"))
		}
		if rapid.IntRange(0, 4).Draw(t, "grantboundary") == 0 {
			n.Amt = rapid.SampledFrom(c10BoundaryAmounts).Draw(t, "grantboundaryamt")
		}
		*pairs = append(*pairs, [2]int{me, n.B})
	case "transferFrom", "burnFrom":
		// steer towards owners that granted this contract an allowance (before the tx or earlier in the tree)
		var mine []int
		for _, p := range *pairs {
			if p[1] == me {
				mine = append(mine, p[0])
			}
		}
		if len(mine) > 0 && rapid.IntRange(0, 4).Draw(t, "usegrant") != 0 {
			n.A = mine[rapid.IntRange(0, len(mine)-1).Draw(t, "grantidx")]
			n.Amt = rapid.SampledFrom([]string{"alw", "alw", "half", "alw-1", "alw+1", "1", n.Amt}).Draw(t, "spendamt")
		}
	}
	return n
}

func genC10Tree(t *rapid.T) c10TreeCase {
	cs := c10TreeCase{Token: rapid.IntRange(0, 1).Draw(t, "token")}
	var pairs [][2]int
	for n := rapid.IntRange(0, 4).Draw(t, "ngrants"); n > 0; n-- {
		g := c10Grant{Owner: rapid.IntRange(0, 5).Draw(t, "owner"), Spender: rapid.IntRange(3, 5).Draw(t, "spender"),
			Amt: rapid.SampledFrom([]string{"max", "1", "700", "5000", "100000", "7", "255", "256", "65535", "18446744073709551616"}).Draw(t, "grantamt")}
		cs.Grants = append(cs.Grants, g)
		pairs = append(pairs, [2]int{g.Owner, g.Spender})
	}
	budget := rapid.IntRange(3, 16).Draw(t, "budget")
	root := c10Node{C: rapid.IntRange(0, 2).Draw(t, "rootcontract"), End: rapid.SampledFrom([]string{"stop", "stop", "stop", "stop", "stop", "stop", "revert", "invalid"}).Draw(t, "rootend")}
	for budget > 0 {
		root.Kids = append(root.Kids, genC10Node(t, 1, &budget, root.C, &pairs))
	}
	cs.Root = root
	return cs
}

// ---- reference ledger

type c10Ledger struct {
	Bal    [c10NHolders]*big.Int
	Supply *big.Int
	Alw    map[[2]int]*big.Int
	Logs   []*ethtypes.Log
	Flags  map[int]int // node id -> 1 (call succeeded) / 2 (call failed), as recorded by the relay that made the call
}

func (l *c10Ledger) clone() *c10Ledger {
	n := &c10Ledger{Supply: new(big.Int).Set(l.Supply), Alw: map[[2]int]*big.Int{}, Flags: map[int]int{}}
	for i := range l.Bal {
		n.Bal[i] = new(big.Int).Set(l.Bal[i])
	}
	for k, v := range l.Alw {
		n.Alw[k] = new(big.Int).Set(v)
	}
	n.Logs = append(n.Logs, l.Logs...)
	for k, v := range l.Flags {
		n.Flags[k] = v
	}
	return n
}

func (l *c10Ledger) alw(o, s int) *big.Int {
	if v, ok := l.Alw[[2]int{o, s}]; ok {
		return v
	}
	return new(big.Int)
}

// c10Walk holds what the model derives while walking the tree.
type c10Walk struct {
	token     common.Address
	data      map[int][]byte // node id -> concrete call data of a leaf
	owners    map[int]int    // node id -> contract (holder index) whose storage holds the node's flag
	nodes     int
	writesIn  bool // a reverted frame contained a successful state-changing call ...
	laterLive bool // ... and a call that survives ran after it
	sameTwice bool
}

func (w *c10Walk) leaf(l *c10Ledger, n c10Node, id, me int) bool {
	owner := me
	if n.Op == "transferFrom" || n.Op == "burnFrom" {
		owner = n.A
	}
	var amt *big.Int
	switch n.Amt {
	case "0":
		amt = new(big.Int)
	case "1":
		amt = big.NewInt(1)
	case "max":
		amt = new(big.Int).Set(maxU256)
	case "bal":
		amt = new(big.Int).Set(l.Bal[owner])
	case "bal+1":
		amt = new(big.Int).Add(l.Bal[owner], big.NewInt(1))
	case "half":
		amt = new(big.Int).Rsh(l.Bal[owner], 1)
	case "alw":
		amt = new(big.Int).Set(l.alw(owner, me))
	case "alw+1":
		amt = new(big.Int).Add(l.alw(owner, me), big.NewInt(1))
	case "alw-1":
		amt = new(big.Int).Sub(l.alw(owner, me), big.NewInt(1))
	default:
		amt, _ = new(big.Int).SetString(n.Amt, 10)
	}
	if amt == nil || amt.Sign() < 0 {
		amt = new(big.Int)
	}
	if amt.Cmp(maxU256) > 0 {
		amt = new(big.Int).Set(maxU256)
	}
	mkLog := func(sig common.Hash, x, y common.Address, v *big.Int) *ethtypes.Log {
		return &ethtypes.Log{Address: w.token, Topics: []common.Hash{sig, common.BytesToHash(x.Bytes()), common.BytesToHash(y.Bytes())}, Data: common.BytesToHash(v.Bytes()).Bytes()}
	}
	// move: the common tail of transfer / transferFrom / burn / burnFrom (to == 6 means burn)
	move := func(from, to int, burn bool) bool {
		if l.Bal[from].Cmp(amt) < 0 {
			return false
		}
		if amt.Sign() != 0 && (burn || from != to) {
			l.Bal[from].Sub(l.Bal[from], amt)
			if burn {
				l.Supply.Sub(l.Supply, amt)
			} else {
				l.Bal[to].Add(l.Bal[to], amt)
			}
		}
		dst := c10Holder(to)
		if burn {
			dst = common.Address{}
		}
		l.Logs = append(l.Logs, mkLog(transferSig, c10Holder(from), dst, amt))
		return true
	}
	spend := func(o int) (ok bool, undo func()) {
		cur := l.alw(o, me)
		if cur.Cmp(maxU256) == 0 {
			return true, func() {}
		}
		if cur.Cmp(amt) < 0 {
			return false, func() {}
		}
		prev, had := l.Alw[[2]int{o, me}]
		l.Alw[[2]int{o, me}] = new(big.Int).Sub(cur, amt)
		return true, func() {
			if had {
				l.Alw[[2]int{o, me}] = prev
			} else {
				delete(l.Alw, [2]int{o, me})
			}
		}
	}
	switch n.Op {
	case "transfer":
		w.data[id] = unhexS(packErc20("transfer", c10Holder(n.B), amt))
		if n.B == 6 {
			return false
		}
		return move(me, n.B, false)
	case "transferFrom":
		w.data[id] = unhexS(packErc20("transferFrom", c10Holder(n.A), c10Holder(n.B), amt))
		if n.A == 6 || n.B == 6 {
			return false
		}
		undo := func() {}
		if n.A != me {
			ok, u := spend(n.A)
			if !ok {
				return false
			}
			undo = u
		}
		if !move(n.A, n.B, false) {
			undo() // the precompile call is atomic: the allowance it spent comes back
			return false
		}
		return true
	case "approve":
		w.data[id] = unhexS(packErc20("approve", c10Holder(n.B), amt))
		if n.B == 6 {
			return false
		}
		l.Alw[[2]int{me, n.B}] = new(big.Int).Set(amt)
		l.Logs = append(l.Logs, mkLog(approvalSig, c10Holder(me), c10Holder(n.B), amt))
		return true
	case "burn":
		w.data[id] = unhexS(packErc20("burn", amt))
		return move(me, 6, true)
	case "burnFrom":
		w.data[id] = unhexS(packErc20("burnFrom", c10Holder(n.A), amt))
		if n.A == 6 {
			return false
		}
		undo := func() {}
		if n.A != me {
			ok, u := spend(n.A)
			if !ok {
				return false
			}
			undo = u
		}
		if !move(n.A, 6, true) {
			undo()
			return false
		}
		return true
	}
	panic("bad op " + n.Op)
}

// frame runs the kids of a frame node on the ledger and returns the ledger after the frame (the input ledger if
// the frame does not end in STOP). ids are assigned in pre-order; the frame node itself has id `id`.
func (w *c10Walk) frame(l *c10Ledger, n c10Node, id int, next *int, live bool) *c10Ledger {
	work := l.clone()
	me := 3 + n.C
	survives := live && n.End == "stop"
	wrote := false
	seen := map[string]bool{}
	for _, k := range n.Kids {
		kid := *next
		*next++
		w.owners[kid] = me
		if k.Op == "" {
			after := w.frame(work, k, kid, next, survives)
			if k.End == "stop" {
				work = after
				work.Flags[kid] = 1
			} else {
				work.Flags[kid] = 2
			}
			continue
		}
		ok := w.leaf(work, k, kid, me)
		if ok {
			work.Flags[kid] = 1
			wrote = true
			if survives && w.writesIn {
				w.laterLive = true
			}
		} else {
			work.Flags[kid] = 2
		}
		if seen[k.Op] {
			w.sameTwice = true
		}
		seen[k.Op] = true
	}
	if n.End != "stop" {
		if wrote {
			w.writesIn = true
		}
		return l
	}
	return work
}

func c10CountNodes(n c10Node) int {
	c := 1
	for _, k := range n.Kids {
		c += c10CountNodes(k)
	}
	return c
}

// ---- code generation: one script per frame node; the first call data byte selects the script

type c10Script struct {
	idx  int
	node c10Node
	id   int
}

func c10Scripts(root c10Node) (perContract [3][]c10Script, scriptOf map[int]int) {
	scriptOf = map[int]int{}
	next := 1
	var rec func(n c10Node, id int)
	rec = func(n c10Node, id int) {
		s := c10Script{idx: len(perContract[n.C]), node: n, id: id}
		perContract[n.C] = append(perContract[n.C], s)
		scriptOf[id] = s.idx
		ids := make([]int, len(n.Kids))
		for i := range n.Kids {
			ids[i] = next
			next++
			if n.Kids[i].Op == "" {
				// children of this kid are numbered after all its siblings' ids are known? no: pre-order, so recurse now
				rec(n.Kids[i], ids[i])
			}
		}
	}
	rec(root, 0)
	return
}

func c10RelayCode(scripts []c10Script, scriptOf map[int]int, kidIDs map[int][]int, w *c10Walk) string {
	a := evmgen.NewAsm()
	a.PushU(0).Op(evmgen.CALLDATALOAD).PushU(248).Op(evmgen.SHR)
	for _, s := range scripts {
		a.Op(evmgen.DUP1).PushU(uint64(s.idx)).Op(evmgen.EQ).PushLabel(fmt.Sprintf("s%d", s.idx)).Op(evmgen.JUMPI)
	}
	a.Op(evmgen.STOP)
	for _, s := range scripts {
		a.Label(fmt.Sprintf("s%d", s.idx)).Op(evmgen.POP)
		for i, k := range s.node.Kids {
			kid := kidIDs[s.id][i]
			if k.Op == "" {
				a.PushU(uint64(scriptOf[kid])).PushU(0).Op(evmgen.MSTORE8)
				a.PushU(0).PushU(0).PushU(1).PushU(0).PushU(0).PushBytes(c10Relay(k.C).Bytes())
				if k.End == "invalid" {
					a.PushU(uint64(200000*c10CountNodes(k) + 100000)) // INVALID burns whatever the frame is given
				} else {
					a.Op(evmgen.GAS)
				}
				a.Op(evmgen.CALL)
			} else {
				data := w.data[kid]
				a.MstoreBytes(0, data)
				a.PushU(0).PushU(0).PushU(uint64(len(data))).PushU(0).PushU(0).PushBytes(w.token.Bytes()).PushU(100000).Op(evmgen.CALL) // a failing precompile call burns the gas it was given
			}
			// flag = 2 - success, stored at slot id+1
			a.PushU(2).Op(evmgen.SUB).PushU(uint64(kid + 1)).Op(evmgen.SSTORE)
		}
		switch s.node.End {
		case "revert":
			a.PushU(0).PushU(0).Op(evmgen.REVERT)
		case "invalid":
			a.Op(evmgen.INVALID)
		default:
			a.Op(evmgen.STOP)
		}
	}
	return hex.EncodeToString(a.Bytes())
}

func c10KidIDs(root c10Node) map[int][]int {
	out := map[int][]int{}
	next := 1
	var rec func(n c10Node, id int)
	rec = func(n c10Node, id int) {
		for i := range n.Kids {
			kid := next
			next++
			out[id] = append(out[id], kid)
			if n.Kids[i].Op == "" {
				rec(n.Kids[i], kid)
			}
		}
	}
	rec(root, 0)
	return out
}

var c10TreeInit = map[int][2]string{ // holder -> genesis balance (native, secondary)
	0: {"1000000000000000000000", "1000000"}, 1: {"1000000000000000000000", "1000000"}, 2: {"1000000000000000000000", "1000000"},
	3: {"5000000", "5000"}, 4: {"5000000", "5000"}, 5: {"70000", "90"},
}

func runC10Tree(id string) func(cs c10TreeCase) *Outcome {
	return func(cs c10TreeCase) *Outcome {
		o := &Outcome{}
		if c10CountNodes(cs.Root) > 40 {
			o.Excluded = "tree too large"
			return o
		}
		taddr, denom := c10Token(cs.Token)
		// 1. the model walks the tree first: call data of every leaf depends on the ledger at that point
		led := &c10Ledger{Supply: new(big.Int), Alw: map[[2]int]*big.Int{}, Flags: map[int]int{}}
		for i := 0; i < c10NHolders; i++ {
			led.Bal[i] = new(big.Int)
			if v, ok := c10TreeInit[i]; ok {
				led.Bal[i], _ = new(big.Int).SetString(v[cs.Token], 10)
			}
		}
		for _, g := range cs.Grants {
			amt := new(big.Int).Set(maxU256)
			if g.Amt != "max" {
				amt, _ = new(big.Int).SetString(g.Amt, 10)
			}
			led.Alw[[2]int{g.Owner, g.Spender}] = amt
		}
		init := led.clone()
		w := &c10Walk{token: taddr, data: map[int][]byte{}, owners: map[int]int{}}
		next := 1
		final := w.frame(led, cs.Root, 0, &next, true)
		kidIDs := c10KidIDs(cs.Root)
		scripts, scriptOf := c10Scripts(cs.Root)

		// 2. the chain: relays carry the generated scripts
		world := chain.World{GenesisTime: 1700000000, NumVals: 1, BaseFee: "0", MinGasPrice: "0", MaxGas: -1, Erc20Native: true, StakingCpc: true, Deployers: []int{3}, NoInflation: true}
		for i := 0; i < 4; i++ {
			world.Accounts = append(world.Accounts, chain.GenAccount{Key: i, Coins: map[string]string{chain.Denom: "1000000000000000000000", chain.SecondDenom: "1000000"}})
		}
		for r := 0; r < 3; r++ {
			world.Contracts = append(world.Contracts, chain.GenContract{Addr: c10Relay(r).Hex(), Code: c10RelayCode(scripts[r], scriptOf, kidIDs, w), Nonce: 1,
				Balance: c10TreeInit[3+r][0], Coins: map[string]string{chain.SecondDenom: c10TreeInit[3+r][1]}})
		}
		c, err := chain.NewStarted(world, chain.NodeOpts{})
		if err != nil {
			o.dev("", "world rejected: %v", err)
			return o
		}
		defer c.Close()
		{
			accNum, seq, _ := c.AccountInfo(c.PendingCtx(), chain.K(3).Acc())
			msg := &cpctypes.MsgDeployErc20ContractRequest{Authority: chain.K(3).Acc().String(), Name: "Foo", Symbol: "FOO", Decimals: 6, MinDenom: chain.SecondDenom}
			bz, err := chain.CosmosTx{Signer: 3, Msgs: []sdk.Msg{msg}, Gas: 500000, FeeAmount: "500000"}.Build(c.TxCfg, c.World.CID(), accNum, seq)
			if err != nil {
				o.dev("", "cannot build deploy tx: %v", err)
				return o
			}
			warm, _, werr := chain.EthTx{From: 3, Type: 0, Nonce: seq + 1, Gas: 30000, GasPrice: "1", To: freshAddr2.Hex(), Value: "1"}.Build(c.TxCfg)
			if werr != nil {
				o.dev("", "cannot build warm-up tx: %v", werr)
				return o
			}
			// allowances in place before the transaction (the store content an earlier approve leaves)
			c.SetObserver(func(ob chain.Obs) {
				if ob.Kind == "end" {
					for k, v := range init.Alw {
						c.App.CPCKeeper.SetErc20CpcAllowance(ob.Ctx, c10Holder(k[0]), c10Holder(k[1]), v)
					}
				}
			})
			res, err := c.RunBlock(chain.Block{Dt: 5, Txs: [][]byte{bz, warm}})
			c.SetObserver(nil)
			if err != nil || res.TxResults[0].Code != 0 || res.TxResults[1].Code != 0 {
				o.dev("", "set-up block failed: %v %v", err, res)
				return o
			}
		}
		read := func(ctx sdk.Context) *c10Ledger {
			l := &c10Ledger{Supply: c.App.BankKeeper.GetSupply(ctx, denom).Amount.BigInt(), Alw: map[[2]int]*big.Int{}}
			for i := 0; i < c10NHolders; i++ {
				l.Bal[i] = c.App.BankKeeper.GetBalance(ctx, c10Holder(i).Bytes(), denom).Amount.BigInt()
				for j := 0; j < c10NHolders; j++ {
					if v := c.App.CPCKeeper.GetErc20CpcAllowance(ctx, c10Holder(i), c10Holder(j)); v.Sign() != 0 {
						l.Alw[[2]int{i, j}] = v
					}
				}
			}
			return l
		}
		pre := read(c.CommittedCtx())
		for i := 0; i < c10NHolders; i++ {
			if pre.Bal[i].Cmp(init.Bal[i]) != 0 {
				o.Excluded = fmt.Sprintf("harness: holder %d starts with %s, the model assumes %s", i, pre.Bal[i], init.Bal[i])
				return o
			}
		}
		snap := func(ctx sdk.Context) interface{} { return takeView(c, ctx) }
		gas := uint64(400000*c10CountNodes(cs.Root) + 3000000)
		recs := runBlockPlans(c, []BlockPlan{{Dt: 7, Txs: []TxPlan{{Kind: "eth", From: 3, Type: 0, Gas: gas, CapOver: 1, To: c10Relay(cs.Root.C).Hex(), Value: "0",
			Data: fmt.Sprintf("%02x", scriptOf[0])}}}}, snap)
		if recs[0].Err != nil {
			o.dev("", "block failed: %v", recs[0].Err)
			return o
		}
		tr := recs[0].Txs[0]
		if tr.Pre == nil || tr.Receipt == nil {
			o.dev("", "tx not executed: code %d %s", tr.Res.Code, truncS(tr.Res.Log, 200))
			return o
		}
		post := read(c.CommittedCtx())
		// 3. compare
		if wantErr := cs.Root.End != "stop"; tr.Receipt.HasVMError != wantErr {
			o.dev("", "vm error = %v (%s), the tree's top frame ends in %s", tr.Receipt.HasVMError, tr.Receipt.VMError, cs.Root.End)
		}
		for i := 0; i < c10NHolders; i++ {
			if post.Bal[i].Cmp(final.Bal[i]) != 0 {
				o.dev("", "%s balance of holder %d (%s) is %s, the ledger says %s (before the tx: %s)", denom, i, c10Holder(i).Hex(), post.Bal[i], final.Bal[i], init.Bal[i])
			}
		}
		wantSupply := new(big.Int).Add(pre.Supply, new(big.Int).Sub(final.Supply, init.Supply))
		if post.Supply.Cmp(wantSupply) != 0 {
			o.dev("", "supply of %s is %s, the ledger says %s (before the tx: %s)", denom, post.Supply, wantSupply, pre.Supply)
		}
		for i := 0; i < c10NHolders; i++ {
			for j := 0; j < c10NHolders; j++ {
				got, want := post.alw(i, j), final.alw(i, j)
				if got.Cmp(want) != 0 {
					o.dev("", "allowance[%d][%d] is %s, the ledger says %s (before the tx: %s)", i, j, got, want, init.alw(i, j))
				}
			}
		}
		logs := tr.Receipt.Receipt.Logs
		if len(logs) != len(final.Logs) {
			o.dev("", "receipt has %d logs, the ledger expects %d", len(logs), len(final.Logs))
		} else {
			for _, d := range compareLogs(logs, final.Logs) {
				o.dev("", "%s", d)
			}
		}
		for node := 1; node < next; node++ {
			want := final.Flags[node]
			got := c.App.EvmKeeper.GetState(c.CommittedCtx(), c10Holder(w.owners[node]), common.BigToHash(big.NewInt(int64(node+1))))
			if new(big.Int).SetBytes(got.Bytes()).Cmp(big.NewInt(int64(want))) != 0 {
				o.dev("", "call %d: the relay recorded result flag %x, the ledger expects %d (1 = call succeeded, 2 = call failed, 0 = frame rolled back)", node, got.Bytes(), want)
			}
		}
		if cs.Root.End != "stop" {
			for _, k := range diffView(tr.Pre.(view), recs[0].End.(view)) {
				if !feeOnlyKey(k, chain.K(3).Acc()) {
					o.dev("", "the transaction ended with a VM error but changed %s", k)
				}
			}
			o.label("top-frame-fails")
		}
		if w.writesIn {
			o.label("reverted-frame-with-successful-call")
		}
		if w.sameTwice {
			o.label("same-method-twice-in-a-frame")
		}
		if len(final.Logs) > 0 {
			o.label("calls-kept")
		}
		o.NonTrivial = w.writesIn && w.laterLive
		if len(o.Devs) > 0 {
			bz, _ := hex.DecodeString("")
			_ = bz
			o.dev("", "tree: %+v", cs.Root)
		}
		_ = id
		return o
	}
}

var freshAddr2 = common.HexToAddress("0xfeed00000000000000000000000000000000b0b0")

func TestC10Tree(t *testing.T) { runProp(t, "C10", genC10Tree, runC10Tree("C10")) }

package props

import (
	"bytes"
	"encoding/hex"
	"fmt"
	"math/big"
	"testing"

	sdkmath "cosmossdk.io/math"
	sdk "github.com/cosmos/cosmos-sdk/types"
	authtypes "github.com/cosmos/cosmos-sdk/x/auth/types"
	vestexported "github.com/cosmos/cosmos-sdk/x/auth/vesting/exported"
	distrtypes "github.com/cosmos/cosmos-sdk/x/distribution/types"
	"github.com/ethereum/go-ethereum/common"
	ethtypes "github.com/ethereum/go-ethereum/core/types"
	"github.com/ethereum/go-ethereum/crypto"
	"pgregory.net/rapid"

	cpcabi "github.com/EscanBE/evermint/v12/x/cpc/abi"
	cpctypes "github.com/EscanBE/evermint/v12/x/cpc/types"

	"verif/harness/chain"
	"verif/harness/evmgen"
)

// C10 — ERC-20 precompile is an exact ERC-20 view of one bank denomination.

type c10Step struct {
	Kind   string `json:"kind"`  // transfer | transferFrom | approve | burn | burnFrom | send
	Token  int    `json:"token"` // 0 native, 1 secondary denom
	Sender int    `json:"sender"`
	Via    bool   `json:"via,omitempty"` // through the forwarder contract (caller = forwarder)
	A      int    `json:"a"`             // pool index (from / owner / spender / to depending on kind)
	B      int    `json:"b"`
	Amt    string `json:"amt"` // 0 | 1 | max | bal | bal+1 | alw | alw+1 | alw-1 | half | <decimal>
}

type c10Case struct {
	Steps   []c10Step `json:"steps"`
	Vesting bool      `json:"vesting"` // key 3 is a vesting account with locked coins
}

var (
	maxU256      = new(big.Int).Sub(new(big.Int).Lsh(big.NewInt(1), 256), big.NewInt(1))
	transferSig  = common.HexToHash("0xddf252ad1be2c89b69c2b068fc378daa952ba7f163c4a11628f55a4df523b3ef")
	approvalSig  = common.HexToHash("0x8c5be1e5ebec7d5bd14f71427d1e84f3dd0314c0f7b2291e5b200ac8c7c3b925")
	distrModAddr = common.BytesToAddress(authtypes.NewModuleAddress(distrtypes.ModuleName))
	freshAddr    = common.HexToAddress("0xfeed00000000000000000000000000000000beef")
)

func erc20FooAddr() common.Address { return crypto.CreateAddress(cpctypes.CpcModuleAddress, 1) }

func c10Token(i int) (common.Address, string) {
	if i == 1 {
		return erc20FooAddr(), chain.SecondDenom
	}
	return erc20NativeAddr(), chain.Denom
}

func forwarderAddr(token int) common.Address {
	return common.HexToAddress(poolAddr(0x60 + token))
}

// c10Pool returns pool address i for a token.
func c10Pool(i, token int) common.Address {
	switch {
	case i <= 3:
		return chain.K(i).Addr
	case i == 4:
		return forwarderAddr(token)
	case i == 5:
		return common.Address{}
	case i == 6:
		return distrModAddr
	case i == 7:
		return freshAddr
	default:
		// the module account the precompiles use as a transit account for burns
		return cpctypes.CpcModuleAddress
	}
}

const c10PoolSize = 9

var c10BoundaryAmounts = []string{"127", "128", "255", "256", "257", "65535", "65536", "16777215", "4294967295", "4294967296", "18446744073709551615", "18446744073709551616",
	"340282366920938463463374607431768211455", "340282366920938463463374607431768211456",
	"57896044618658097711785492504343953926634992332820282019728792003956564819967", "57896044618658097711785492504343953926634992332820282019728792003956564819968",
	"115792089237316195423570985008687907853269984665640564039457584007913129639934"}

func forwarderCode(target common.Address) string {
	a := evmgen.NewAsm()
	a.Op(evmgen.CALLDATASIZE).PushU(0).PushU(0).Op(evmgen.CALLDATACOPY)
	a.PushU(0).PushU(0).Op(evmgen.CALLDATASIZE).PushU(0).PushU(0).PushBytes(target.Bytes()).Op(evmgen.GAS).Op(evmgen.CALL)
	a.PushU(0).Op(evmgen.MSTORE).PushU(32).PushU(0).Op(evmgen.RETURN)
	return hex.EncodeToString(a.Bytes())
}

func c10World(cs c10Case) chain.World {
	w := chain.World{GenesisTime: 1700000000, NumVals: 1, BaseFee: "0", MinGasPrice: "0", MaxGas: -1, Erc20Native: true, StakingCpc: true, Deployers: []int{0}}
	for i := 0; i < 4; i++ {
		acc := chain.GenAccount{Key: i, Coins: map[string]string{chain.Denom: "1000000000000000000000", chain.SecondDenom: "1000000"}}
		if i == 3 && cs.Vesting {
			acc.Vesting = &chain.VestingSpec{Kind: "continuous", Start: 1700000000, End: 1700001000, Original: map[string]string{chain.Denom: "999999000000000000000", chain.SecondDenom: "900000"}}
		}
		w.Accounts = append(w.Accounts, acc)
	}
	for tkn := 0; tkn < 2; tkn++ {
		target, _ := c10Token(tkn)
		w.Contracts = append(w.Contracts, chain.GenContract{Addr: forwarderAddr(tkn).Hex(), Code: forwarderCode(target), Nonce: 1, Balance: "5000000", Coins: map[string]string{chain.SecondDenom: "5000"}})
	}
	return w
}

func genC10(t *rapid.T) c10Case {
	cs := c10Case{Vesting: rapid.IntRange(0, 3).Draw(t, "vesting") == 3}
	kinds := []string{"transfer", "transferFrom", "approve", "burn", "burnFrom", "transfer", "transferFrom", "approve", "send"}
	amts := []string{"0", "1", "max", "bal", "bal+1", "alw", "alw+1", "alw-1", "half", "half"}
	// (owner, spender) pairs approved earlier in the sequence: later spends are steered towards them so that
	// approve -> spend -> re-spend histories (exact, partial and excess amounts) are common instead of accidental
	type pair struct{ owner, spender int }
	var approved []pair
	for n := rapid.IntRange(1, 12).Draw(t, "nsteps"); n > 0; n-- {
		s := c10Step{Kind: rapid.SampledFrom(kinds).Draw(t, "kind"), Token: rapid.IntRange(0, 1).Draw(t, "token"), Sender: rapid.IntRange(0, 3).Draw(t, "sender"),
			Via: rapid.IntRange(0, 3).Draw(t, "via") == 3, A: rapid.IntRange(0, c10PoolSize-1).Draw(t, "a"), B: rapid.IntRange(0, c10PoolSize-1).Draw(t, "b")}
		if len(approved) > 0 && rapid.Bool().Draw(t, "spendnow") {
			s.Kind = rapid.SampledFrom([]string{"transferFrom", "transferFrom", "burnFrom"}).Draw(t, "spendkind")
		}
		if rapid.IntRange(0, 4).Draw(t, "amtk") == 4 {
			s.Amt = fmt.Sprintf("%d", rapid.Uint64Range(2, 100000).Draw(t, "amtv"))
		} else {
			s.Amt = rapid.SampledFrom(amts).Draw(t, "amt")
		}
		switch s.Kind {
		case "approve":
			owner := s.Sender
			if s.Via {
				owner = 4
			}
			if s.B <= 4 {
				approved = append(approved, pair{owner, s.B})
			}
			if s.Amt == "0" && rapid.Bool().Draw(t, "nonzeroapprove") {
				s.Amt = fmt.Sprintf("%d", rapid.Uint64Range(1, 5000).Draw(t, "approveamt"))
			}
			if rapid.IntRange(0, 3).Draw(t, "approveboundary") == 0 {
				// values at the edges of the byte lengths an encoding of the allowance may switch at
				s.Amt = rapid.SampledFrom(c10BoundaryAmounts).Draw(t, "approveboundaryamt")
			}
		case "transferFrom", "burnFrom":
			if len(approved) > 0 && rapid.IntRange(0, 3).Draw(t, "usepair") != 0 {
				p := approved[rapid.IntRange(0, len(approved)-1).Draw(t, "pair")]
				s.A = p.owner
				if p.spender == 4 {
					s.Via = true
				} else {
					s.Sender, s.Via = p.spender, false
				}
				s.Amt = rapid.SampledFrom([]string{"alw", "alw", "alw", "alw-1", "alw+1", "half", "1", "0", s.Amt}).Draw(t, "spendamt")
			}
		}
		cs.Steps = append(cs.Steps, s)
	}
	return cs
}

type c10State struct {
	Bal    [2][c10PoolSize]*big.Int
	Supply [2]*big.Int
	View   view
}

func c10Allowance(c *chain.Chain, ctx sdk.Context, token int, owner, spender common.Address) *big.Int {
	taddr, _ := c10Token(token)
	_ = taddr
	return c10AllowanceRaw(c, ctx, owner, spender)
}

// allowances are keyed by (owner, spender) only in the cpc store; read through the keeper
func c10AllowanceRaw(c *chain.Chain, ctx sdk.Context, owner, spender common.Address) *big.Int {
	return c.App.CPCKeeper.GetErc20CpcAllowance(ctx, owner, spender)
}

func runC10(cs c10Case) *Outcome {
	o := &Outcome{}
	c, err := chain.NewStarted(c10World(cs), chain.NodeOpts{})
	if err != nil {
		o.dev("", "world rejected: %v", err)
		return o
	}
	defer c.Close()
	// setup: deploy the secondary-denom ERC-20 precompile (key 0 is whitelisted)
	{
		accNum, seq, _ := c.AccountInfo(c.PendingCtx(), chain.K(0).Acc())
		msg := &cpctypes.MsgDeployErc20ContractRequest{Authority: chain.K(0).Acc().String(), Name: "Foo", Symbol: "FOO", Decimals: 6, MinDenom: chain.SecondDenom}
		bz, err := chain.CosmosTx{Signer: 0, Msgs: []sdk.Msg{msg}, Gas: 500000, FeeAmount: "500000"}.Build(c.TxCfg, c.World.CID(), accNum, seq)
		if err != nil {
			o.dev("", "cannot build deploy tx: %v", err)
			return o
		}
		// a plain transfer in the same block makes the lazily created EVM module account exist
		warm, _, werr := chain.EthTx{From: 1, Type: 0, Nonce: 0, Gas: 30000, GasPrice: "1", To: chain.K(2).Addr.Hex(), Value: "1"}.Build(c.TxCfg)
		if werr != nil {
			o.dev("", "cannot build warm-up tx: %v", werr)
			return o
		}
		res, err := c.RunBlock(chain.Block{Dt: 5, Txs: [][]byte{bz, warm}})
		if err != nil || res.TxResults[0].Code != 0 || res.TxResults[1].Code != 0 {
			o.dev("", "deploying the secondary ERC-20 precompile failed: %v %v", err, res)
			return o
		}
		got := c.App.CPCKeeper.GetErc20CustomPrecompiledContractAddressByMinDenom(c.CommittedCtx(), chain.SecondDenom)
		if got == nil || *got != erc20FooAddr() {
			o.dev("", "secondary ERC-20 precompile deployed at %v, harness expects %s", got, erc20FooAddr().Hex())
			return o
		}
	}
	readState := func(ctx sdk.Context) *c10State {
		s := &c10State{}
		for tkn := 0; tkn < 2; tkn++ {
			_, denom := c10Token(tkn)
			for i := 0; i < c10PoolSize; i++ {
				s.Bal[tkn][i] = c.App.BankKeeper.GetBalance(ctx, c10Pool(i, tkn).Bytes(), denom).Amount.BigInt()
			}
			s.Supply[tkn] = c.App.BankKeeper.GetSupply(ctx, denom).Amount.BigInt()
		}
		s.View = takeView(c, ctx)
		return s
	}
	snap := func(ctx sdk.Context) interface{} { return readState(ctx) }

	sawApprove, sawSpend, sawRespend, special := false, false, false, false
	// allowance models: per token (what the property demands) and token-agnostic (what the shared store key gives,
	// known finding D15); index = pool index of owner, spender
	alwM := [2]map[[2]int]*big.Int{{}, {}}
	alwG := map[[2]int]*big.Int{}
	getM := func(m map[[2]int]*big.Int, x, y int) *big.Int {
		if v, ok := m[[2]int{x, y}]; ok {
			return v
		}
		return new(big.Int)
	}
	for si, st := range cs.Steps {
		taddr, denom := c10Token(st.Token)
		ctx := c.CommittedCtx()
		cur := readState(ctx)
		caller := chain.K(st.Sender).Addr
		callerIdx := st.Sender
		if st.Via {
			caller, callerIdx = forwarderAddr(st.Token), 4
		}
		a, b := c10Pool(st.A, st.Token), c10Pool(st.B, st.Token)
		// resolve the amount
		var owner common.Address // whose coins move
		ownerIdx := callerIdx
		switch st.Kind {
		case "transferFrom", "burnFrom":
			owner, ownerIdx = a, st.A
		default:
			owner = caller
		}
		alw := c10AllowanceRaw(c, ctx, owner, caller)
		var amt *big.Int
		switch st.Amt {
		case "0":
			amt = new(big.Int)
		case "1":
			amt = big.NewInt(1)
		case "max":
			amt = new(big.Int).Set(maxU256)
		case "bal":
			amt = new(big.Int).Set(cur.Bal[st.Token][ownerIdx])
		case "bal+1":
			amt = new(big.Int).Add(cur.Bal[st.Token][ownerIdx], big.NewInt(1))
		case "half":
			amt = new(big.Int).Rsh(cur.Bal[st.Token][ownerIdx], 1)
			if st.Token == 0 && amt.BitLen() > 40 {
				amt = big.NewInt(1000000) // keep native amounts small so fees never matter
			}
		case "alw":
			amt = new(big.Int).Set(alw)
		case "alw+1":
			amt = new(big.Int).Add(alw, big.NewInt(1))
		case "alw-1":
			amt = new(big.Int).Sub(alw, big.NewInt(1))
		default:
			amt, _ = new(big.Int).SetString(st.Amt, 10)
		}
		if amt.Sign() < 0 {
			amt = new(big.Int)
		}
		if amt.Cmp(maxU256) > 0 {
			amt = new(big.Int).Set(maxU256)
		}
		if st.Kind == "send" {
			// native bank send of the token's denomination between EOAs
			if st.A > 3 {
				continue
			}
			if amt.BitLen() > 62 {
				amt = big.NewInt(12345)
			}
			if amt.Sign() == 0 {
				amt = big.NewInt(1)
			}
			accNum, seq, _ := c.AccountInfo(ctx, chain.K(st.Sender).Acc())
			bz, err := chain.CosmosTx{Signer: st.Sender, Msgs: []sdk.Msg{newMsgSend(chain.K(st.Sender).Acc(), chain.K(st.A).Acc(), denom, amt)}, Gas: 300000, FeeAmount: "300000"}.Build(c.TxCfg, c.World.CID(), accNum, seq)
			if err != nil {
				o.dev("", "step %d: cannot build bank send: %v", si, err)
				return o
			}
			if _, err := c.RunBlock(chain.Block{Dt: 7, Txs: [][]byte{bz}}); err != nil {
				o.dev("", "step %d: bank send block failed: %v", si, err)
				return o
			}
			o.label("bank-send")
			continue
		}
		var data string
		switch st.Kind {
		case "transfer":
			data = packErc20("transfer", b, amt)
		case "transferFrom":
			data = packErc20("transferFrom", a, b, amt)
		case "approve":
			data = packErc20("approve", b, amt)
		case "burn":
			data = packErc20("burn", amt)
		case "burnFrom":
			data = packErc20("burnFrom", a, amt)
		}
		to := taddr
		if st.Via {
			to = forwarderAddr(st.Token)
		}
		alwPre := map[[2]int]*big.Int{}
		for x := 0; x < c10PoolSize; x++ {
			for y := 0; y < c10PoolSize; y++ {
				alwPre[[2]int{x, y}] = c10AllowanceRaw(c, ctx, c10Pool(x, st.Token), c10Pool(y, st.Token))
			}
		}
		recs := runBlockPlans(c, []BlockPlan{{Dt: 7, Txs: []TxPlan{{Kind: "eth", From: st.Sender, Type: 0, Gas: 2000000, CapOver: 1, To: to.Hex(), Value: "0", Data: data}}}}, snap)
		if recs[0].Err != nil {
			o.dev("", "step %d: block failed: %v", si, recs[0].Err)
			return o
		}
		tr := recs[0].Txs[0]
		if tr.Pre == nil || tr.Receipt == nil {
			if tr.Res != nil && containsAny(tr.Res.Log, "insufficient funds", "insufficient fee") {
				// the sender of this step has given its native coins away earlier in the sequence and cannot pay the fee
				// any more: the step never reaches the precompile, nothing to compare
				o.label("step-skipped:sender-cannot-pay-fee")
				continue
			}
			o.dev("", "step %d (%+v): tx not executed: code %d %s", si, st, tr.Res.Code, truncS(tr.Res.Log, 200))
			return o
		}
		pre, post := tr.Pre.(*c10State), recs[0].End.(*c10State)
		success := !tr.Receipt.HasVMError
		if st.Via && success {
			resp, err := decodeEthResponse(tr.Res.Data)
			if err != nil {
				o.dev("", "step %d: cannot decode response: %v", si, err)
				return o
			}
			success = len(resp.Ret) == 32 && resp.Ret[31] == 1
		}
		fee := new(big.Int).Mul(new(big.Int).SetUint64(tr.Receipt.GasUsed), big.NewInt(1)) // flat fee: 1 wei per gas
		// expected deltas of token balances (native: minus the tx fee of the sender)
		expect := [c10PoolSize]*big.Int{}
		for i := range expect {
			expect[i] = new(big.Int)
		}
		expSupply := new(big.Int)
		var wantLog *ethtypes.Log
		expAlw := map[[2]int]*big.Int{}
		mkLog := func(sig common.Hash, x, y common.Address, v *big.Int) *ethtypes.Log {
			return &ethtypes.Log{Address: taddr, Topics: []common.Hash{sig, common.BytesToHash(x.Bytes()), common.BytesToHash(y.Bytes())}, Data: common.BytesToHash(v.Bytes()).Bytes()}
		}
		idxOf := func(addr common.Address) int {
			for i := 0; i < c10PoolSize; i++ {
				if c10Pool(i, st.Token) == addr {
					return i
				}
			}
			return -1
		}
		if success {
			switch st.Kind {
			case "transfer", "transferFrom":
				dst := b
				if owner != dst {
					expect[ownerIdx].Sub(expect[ownerIdx], amt)
					expect[idxOf(dst)].Add(expect[idxOf(dst)], amt)
				}
				wantLog = mkLog(transferSig, owner, dst, amt)
			case "burn", "burnFrom":
				expect[ownerIdx].Sub(expect[ownerIdx], amt)
				expSupply.Sub(expSupply, amt)
				wantLog = mkLog(transferSig, owner, common.Address{}, amt)
			case "approve":
				expAlw[[2]int{callerIdx, st.B}] = amt
				wantLog = mkLog(approvalSig, caller, b, amt)
			}
			if (st.Kind == "transferFrom" || st.Kind == "burnFrom") && owner != caller {
				if am := getM(alwM[st.Token], ownerIdx, callerIdx); am.Cmp(amt) < 0 && am.Cmp(maxU256) != 0 {
					key := ""
					if ag := getM(alwG, ownerIdx, callerIdx); ag.Cmp(amt) >= 0 || ag.Cmp(maxU256) == 0 {
						key = "D15-allowance-shared-across-erc20"
					}
					o.dev(key, "step %d (%+v): spent %s of another holder's %s with an allowance of only %s on this token", si, st, amt, denom, am)
				}
				if alw.Cmp(maxU256) != 0 {
					expAlw[[2]int{ownerIdx, callerIdx}] = new(big.Int).Sub(alw, amt)
				} else {
					o.label("unlimited-allowance-spend")
					special = true
				}
				if sawSpend {
					sawRespend = true
				}
				sawSpend = true
			}
			if st.Kind == "approve" {
				sawApprove = true
			}
			if (st.Kind == "transfer" || st.Kind == "transferFrom") && owner == b {
				special = true
				o.label("self-transfer")
			}
			if amt.Sign() == 0 {
				special = true
				o.label("zero-amount")
			}
			if st.Via {
				special = true
			}
			// balance precondition
			if st.Kind != "approve" && pre.Bal[st.Token][ownerIdx].Cmp(amt) < 0 {
				o.dev("", "step %d (%+v): moved %s although the holder only had %s", si, st, amt, pre.Bal[st.Token][ownerIdx])
			}
			o.label("ok:" + st.Kind)
		} else {
			o.label("fail:" + st.Kind)
		}
		if st.Token == 0 {
			expect[st.Sender].Sub(expect[st.Sender], fee)
		}
		for i := 0; i < c10PoolSize; i++ {
			got := new(big.Int).Sub(post.Bal[st.Token][i], pre.Bal[st.Token][i])
			if got.Cmp(expect[i]) != 0 {
				o.dev("", "step %d (%+v, success=%v): %s balance of pool[%d] changed by %s, expected %s", si, st, success, denom, i, got, expect[i])
			}
			other := 1 - st.Token
			gotO := new(big.Int).Sub(post.Bal[other][i], pre.Bal[other][i])
			wantO := new(big.Int)
			if other == 0 && i == st.Sender {
				wantO.Neg(fee)
			}
			if c10Pool(i, other) == c10Pool(i, st.Token) && gotO.Cmp(wantO) != 0 {
				o.dev("", "step %d (%+v): the other denomination's balance of pool[%d] changed by %s, expected %s", si, st, i, gotO, wantO)
			}
		}
		gotSupply := new(big.Int).Sub(post.Supply[st.Token], pre.Supply[st.Token])
		if st.Token == 0 {
			// known refund-mint finding affects the native supply: remove it when open
			if _, open := knownOpen["C04/D2-refund-mint"]; open {
				gotSupply.Sub(gotSupply, new(big.Int).SetUint64(2000000-tr.Receipt.GasUsed))
			}
		}
		if gotSupply.Cmp(expSupply) != 0 {
			o.dev("", "step %d (%+v, success=%v): supply of %s changed by %s, expected %s", si, st, success, denom, gotSupply, expSupply)
		}
		// allowances: only the expected entry may change
		postCtx := c.CommittedCtx()
		for x := 0; x < c10PoolSize; x++ {
			for y := 0; y < c10PoolSize; y++ {
				want := alwPre[[2]int{x, y}]
				if v, ok := expAlw[[2]int{x, y}]; ok {
					want = v
				}
				got := c10AllowanceRaw(c, postCtx, c10Pool(x, st.Token), c10Pool(y, st.Token))
				if got.Cmp(want) != 0 {
					o.dev("", "step %d (%+v, success=%v): allowance[%d][%d] is %s, expected %s", si, st, success, x, y, got, want)
				}
			}
		}
		// update the allowance models and compare each token's allowance() view with the per-token model
		if success {
			switch {
			case st.Kind == "approve":
				alwM[st.Token][[2]int{callerIdx, st.B}] = new(big.Int).Set(amt)
				alwG[[2]int{callerIdx, st.B}] = new(big.Int).Set(amt)
			case (st.Kind == "transferFrom" || st.Kind == "burnFrom") && owner != caller:
				if am := getM(alwM[st.Token], ownerIdx, callerIdx); am.Cmp(maxU256) != 0 {
					n := new(big.Int).Sub(am, amt)
					if n.Sign() < 0 {
						n = new(big.Int)
					}
					alwM[st.Token][[2]int{ownerIdx, callerIdx}] = n
				}
				if ag := getM(alwG, ownerIdx, callerIdx); ag.Cmp(maxU256) != 0 {
					n := new(big.Int).Sub(ag, amt)
					if n.Sign() < 0 {
						n = new(big.Int)
					}
					alwG[[2]int{ownerIdx, callerIdx}] = n
				}
			}
		}
		for tkn := 0; tkn < 2; tkn++ {
			ta, _ := c10Token(tkn)
			for _, pair := range [][2]int{{ownerIdx, callerIdx}, {callerIdx, st.B}} {
				x, y := c10Pool(pair[0], st.Token), c10Pool(pair[1], st.Token)
				if c10Pool(pair[0], tkn) != x || c10Pool(pair[1], tkn) != y {
					continue // the forwarder differs per token
				}
				resp, err := ethCall(c, chain.K(0).Addr, &ta, unhexS(packErc20("allowance", x, y)), nil, 1000000)
				if err != nil || resp.Failed() {
					o.dev("", "step %d: allowance query failed: %v", si, err)
					continue
				}
				got := new(big.Int).SetBytes(resp.Ret)
				if want := getM(alwM[tkn], pair[0], pair[1]); got.Cmp(want) != 0 {
					key := ""
					if got.Cmp(getM(alwG, pair[0], pair[1])) == 0 {
						key = "D15-allowance-shared-across-erc20"
					}
					o.dev(key, "step %d (%+v): token %d reports allowance(%d,%d)=%s but only %s was approved on this token", si, st, tkn, pair[0], pair[1], got, want)
				}
			}
		}
		// logs
		logs := tr.Receipt.Receipt.Logs
		if success && wantLog != nil {
			if len(logs) != 1 {
				o.dev("", "step %d (%+v): %d logs, expected exactly one", si, st, len(logs))
			} else if d := compareLogs(logs, []*ethtypes.Log{wantLog}); len(d) > 0 {
				o.dev("", "step %d (%+v): %s", si, st, d[0])
			}
		} else if len(logs) != 0 {
			o.dev("", "step %d (%+v): failing call emitted %d logs", si, st, len(logs))
		}
		// a failing call changes nothing: whole-state diff is fee only
		if !success {
			for _, k := range diffView(pre.View, post.View) {
				if !feeOnlyKey(k, chain.K(st.Sender).Acc()) {
					o.dev("", "step %d (%+v): failing call changed %s", si, st, k)
				}
			}
		}
		// vesting lock respected
		if cs.Vesting {
			if va, ok := c.App.AccountKeeper.GetAccount(postCtx, chain.K(3).Acc()).(vestexported.VestingAccount); ok {
				locked := va.LockedCoins(c.Time)
				bal := c.App.BankKeeper.GetAllBalances(postCtx, chain.K(3).Acc())
				// delegated coins do not apply here (none delegated)
				if !bal.IsAllGTE(locked) {
					o.dev("", "step %d (%+v): vesting account holds %s, less than its locked coins %s", si, st, bal, locked)
				}
			}
		}
		// views equal bank / model (through eth_call)
		for _, probe := range []int{ownerIdx, st.B} {
			addr := c10Pool(probe, st.Token)
			resp, err := ethCall(c, chain.K(0).Addr, &taddr, unhexS(packErc20("balanceOf", addr)), nil, 1000000)
			if err != nil || resp.Failed() {
				o.dev("", "step %d: balanceOf query failed: %v", si, err)
				continue
			}
			want := c.App.BankKeeper.GetBalance(postCtx, addr.Bytes(), denom).Amount.BigInt()
			if new(big.Int).SetBytes(resp.Ret).Cmp(want) != 0 {
				o.dev("", "step %d: balanceOf(%s)=%s but the bank balance is %s", si, addr.Hex(), new(big.Int).SetBytes(resp.Ret), want)
			}
		}
		if resp, err := ethCall(c, chain.K(0).Addr, &taddr, unhexS(packErc20("totalSupply")), nil, 1000000); err == nil && !resp.Failed() {
			want := c.App.BankKeeper.GetSupply(postCtx, denom).Amount.BigInt()
			if new(big.Int).SetBytes(resp.Ret).Cmp(want) != 0 {
				o.dev("", "step %d: totalSupply()=%s but the bank supply is %s", si, new(big.Int).SetBytes(resp.Ret), want)
			}
		} else {
			o.dev("", "step %d: totalSupply query failed: %v", si, err)
		}
		if resp, err := ethCall(c, chain.K(0).Addr, &taddr, unhexS(packErc20("allowance", owner, caller)), nil, 1000000); err == nil && !resp.Failed() {
			want := c10AllowanceRaw(c, postCtx, owner, caller)
			if new(big.Int).SetBytes(resp.Ret).Cmp(want) != 0 {
				o.dev("", "step %d: allowance()=%s but the stored allowance is %s", si, new(big.Int).SetBytes(resp.Ret), want)
			}
		}
		for _, d := range o.Devs {
			if d.Key == "" {
				return o
			}
		}
	}
	o.NonTrivial = (sawApprove && sawSpend && sawRespend) || special
	_ = bytes.Equal
	_ = cpcabi.Erc20CpcInfo
	return o
}

func unhexS(s string) []byte {
	b, err := hex.DecodeString(s)
	if err != nil {
		panic(err)
	}
	return b
}

func newMsgSend(from, to sdk.AccAddress, denom string, amt *big.Int) sdk.Msg {
	return bankSend(from, to, sdk.NewCoins(sdk.NewCoin(denom, sdkmath.NewIntFromBigInt(amt))))
}

func TestC10(t *testing.T) { runProp(t, "C10", genC10, runC10) }

package props

import (
	"fmt"
	"math/big"
	"strconv"
	"strings"

	sdkmath "cosmossdk.io/math"
	abci "github.com/cometbft/cometbft/abci/types"
	sdk "github.com/cosmos/cosmos-sdk/types"
	authtypes "github.com/cosmos/cosmos-sdk/x/auth/types"
	govtypes "github.com/cosmos/cosmos-sdk/x/gov/types"
	"github.com/ethereum/go-ethereum/common"
	"github.com/ethereum/go-ethereum/common/hexutil"
	ethtypes "github.com/ethereum/go-ethereum/core/types"

	feemarkettypes "github.com/EscanBE/evermint/v12/x/feemarket/types"

	"verif/harness/chain"
)

// parsedReceipt is the content of a tx_receipt event.
type parsedReceipt struct {
	Receipt      *ethtypes.Receipt
	TxHash       string
	ContractAddr string
	GasUsed      uint64
	EffPrice     *big.Int
	BlockNumber  string
	TxIdx        uint64
	LogIdx       *uint64
	VMError      string
	HasVMError   bool
}

func parseReceiptEvent(e abci.Event) (*parsedReceipt, error) {
	pr := &parsedReceipt{}
	for _, a := range e.Attributes {
		switch a.Key {
		case "marshalled":
			bz, err := hexutil.Decode(a.Value)
			if err != nil {
				return nil, err
			}
			r := &ethtypes.Receipt{}
			if err := r.UnmarshalBinary(bz); err != nil {
				return nil, err
			}
			pr.Receipt = r
		case "evmTxHash":
			pr.TxHash = a.Value
		case "contractAddr":
			pr.ContractAddr = a.Value
		case "gasUsed":
			pr.GasUsed, _ = strconv.ParseUint(a.Value, 10, 64)
		case "effectiveGasPrice":
			pr.EffPrice, _ = new(big.Int).SetString(a.Value, 10)
		case "blockNumber":
			pr.BlockNumber = a.Value
		case "txIdx":
			pr.TxIdx, _ = strconv.ParseUint(a.Value, 10, 64)
		case "logIdx":
			v, _ := strconv.ParseUint(a.Value, 10, 64)
			pr.LogIdx = &v
		case "error":
			pr.VMError, pr.HasVMError = a.Value, true
		}
	}
	return pr, nil
}

// txRecord is everything observed about one tx of a block.
type txRecord struct {
	Built    builtTx
	Res      *abci.ExecTxResult
	AnteRan  bool
	AnteErr  error
	Pre      interface{} // snapshot before the ante handler (nil if the ante handler never ran)
	Post     interface{} // snapshot at the next observation point
	Receipt  *parsedReceipt
	EthEvent *abci.Event // ethereum_tx event (emitted at the end of the ante handler)
}

// admitted reports whether the tx passed the ante handler.
func (r txRecord) admitted() bool { return r.AnteRan && r.AnteErr == nil }

type blockRecord struct {
	Plan    BlockPlan
	Height  int64
	Time    int64
	Txs     []txRecord
	Res     *abci.ResponseFinalizeBlock
	Err     error
	BaseFee *big.Int // base fee in force during this block
	Floor   *big.Int // max(base fee, integer part of the global minimum gas price) during this block
	End     interface{}
	PreGov  interface{} // snapshot before a governance update enacted in this block (nil without one)
	GovErr  error
	Hash    []byte // header hash to hand to FinalizeBlock (nil = the driver's default)
}

// runBlockPlans builds and executes block plans on c, taking snapshots with snap at every observation point.
func runBlockPlans(c *chain.Chain, blocks []BlockPlan, snap func(ctx sdk.Context) interface{}) []blockRecord {
	var out []blockRecord
	var history []builtTx
	for _, bp := range blocks {
		pb := newPlanBuilder(c)
		rec := blockRecord{Plan: bp, BaseFee: new(big.Int).Set(pb.baseFee), Floor: new(big.Int).Set(pb.floor)}
		var txs [][]byte
		for _, p := range bp.Txs {
			var bt builtTx
			if p.Kind == "replay" {
				// exact bytes of an earlier tx of this history (earlier block or earlier in this block)
				if len(history) == 0 {
					bt = builtTx{Bytes: []byte{0}, Plan: p}
				} else {
					src := history[(p.RBlock*7+p.RIndex)%len(history)]
					bt = src
					bt.Plan = p
					bt.ReplayOf = src.Bytes
				}
			} else {
				bt = pb.build(p)
			}
			history = append(history, bt)
			rec.Txs = append(rec.Txs, txRecord{Built: bt})
			txs = append(txs, bt.Bytes)
		}
		rec = execBlock(c, rec, bp.Dt, bp.Proposer, txs, snap)
		out = append(out, rec)
		if rec.Err != nil {
			break
		}
	}
	return out
}

// execBlock runs one block of already built txs (rec.Txs[i].Built may be zero for replays of raw bytes).
func execBlock(c *chain.Chain, rec blockRecord, dt int64, proposer int, txs [][]byte, snap func(ctx sdk.Context) interface{}) blockRecord {
	for len(rec.Txs) < len(txs) {
		rec.Txs = append(rec.Txs, txRecord{})
	}
	type obsRec struct {
		kind string
		idx  int
		s    interface{}
	}
	var obs []obsRec
	if snap != nil || rec.Plan.GovFee != nil {
		c.SetObserver(func(o chain.Obs) {
			if o.Kind == "end" && rec.Plan.GovFee != nil {
				if snap != nil {
					rec.PreGov = snap(o.Ctx)
				}
				rec.GovErr = enactGovFee(c, o.Ctx, *rec.Plan.GovFee)
			}
			if snap != nil {
				obs = append(obs, obsRec{o.Kind, o.TxIndex, snap(o.Ctx)})
			}
		})
	} else {
		c.SetObserver(nil)
	}
	res, err := c.RunBlock(chain.Block{Dt: dt, Proposer: proposer, Txs: txs, Hash: rec.Hash})
	c.SetObserver(nil)
	rec.Res, rec.Err = res, err
	rec.Height = c.Height
	rec.Time = c.Time.Unix()
	if err != nil || res == nil {
		return rec
	}
	for i := range rec.Txs {
		if i < len(res.TxResults) {
			rec.Txs[i].Res = res.TxResults[i]
		}
		rec.Txs[i].AnteRan = c.AnteRan[i]
		rec.Txs[i].AnteErr = c.AnteErr[i]
		if rec.Txs[i].Res != nil {
			for j := range rec.Txs[i].Res.Events {
				e := rec.Txs[i].Res.Events[j]
				switch e.Type {
				case "tx_receipt":
					if pr, err := parseReceiptEvent(e); err == nil {
						rec.Txs[i].Receipt = pr
					}
				case "ethereum_tx":
					rec.Txs[i].EthEvent = &rec.Txs[i].Res.Events[j]
				}
			}
		}
	}
	// attach snapshots: pre = obs with idx i ; post = next obs in order
	for k, o := range obs {
		if o.kind == "ante" && o.idx >= 0 && o.idx < len(rec.Txs) {
			rec.Txs[o.idx].Pre = o.s
			if k+1 < len(obs) {
				rec.Txs[o.idx].Post = obs[k+1].s
			}
		}
		if o.kind == "end" {
			rec.End = o.s
		}
	}
	return rec
}

// effectivePrice recomputes the effective gas price of a tx independently.
func effectivePrice(tx *ethtypes.Transaction, baseFee *big.Int) *big.Int {
	if tx.Type() == ethtypes.DynamicFeeTxType {
		p := new(big.Int).Add(tx.GasTipCap(), baseFee)
		if p.Cmp(tx.GasFeeCap()) > 0 {
			p = new(big.Int).Set(tx.GasFeeCap())
		}
		return p
	}
	return new(big.Int).Set(tx.GasPrice())
}

func containsAny(s string, subs ...string) bool {
	for _, x := range subs {
		if strings.Contains(s, x) {
			return true
		}
	}
	return false
}

func addrHex(a common.Address) string { return strings.ToLower(a.Hex()) }

// enactGovFee runs the fee-market MsgUpdateParams with the governance authority on the block's context.
func enactGovFee(c *chain.Chain, ctx sdk.Context, g GovFeePlan) (err error) {
	defer func() {
		if r := recover(); r != nil {
			err = fmt.Errorf("panic: %v", r)
		}
	}()
	bf, ok := sdkmath.NewIntFromString(g.BaseFee)
	if !ok {
		return fmt.Errorf("bad base fee")
	}
	mp, perr := sdkmath.LegacyNewDecFromStr(g.MinGasPrice)
	if perr != nil {
		return perr
	}
	msg := &feemarkettypes.MsgUpdateParams{Authority: authtypes.NewModuleAddress(govtypes.ModuleName).String(), Params: feemarkettypes.Params{BaseFee: bf, MinGasPrice: mp}}
	if verr := msg.Params.Validate(); verr != nil {
		return verr
	}
	cctx, write := ctx.CacheContext()
	if _, err = c.App.FeeMarketKeeper.UpdateParams(cctx, msg); err != nil {
		return err
	}
	write()
	return nil
}

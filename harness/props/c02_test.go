package props

import (
	"bytes"
	"errors"
	"fmt"
	"math"
	"math/big"
	"testing"

	sdk "github.com/cosmos/cosmos-sdk/types"
	"github.com/ethereum/go-ethereum/common"
	"github.com/ethereum/go-ethereum/core"
	ethtypes "github.com/ethereum/go-ethereum/core/types"
	"pgregory.net/rapid"

	evmtypes "github.com/EscanBE/evermint/v12/x/evm/types"

	"verif/harness/chain"
	"verif/harness/gethref"
)

// C02 — EVM transactions execute exactly as go-ethereum's reference state transition.

type c02Case struct {
	World    chain.World `json:"world"`
	Preamble []TxPlan    `json:"preamble"` // executed in block 1
	Before   []TxPlan    `json:"before"`   // executed in block 2 before the tested tx
	Tx       TxPlan      `json:"tx"`       // the tested tx, last in block 2
	Proposer int         `json:"proposer"`
	Dt       int64       `json:"dt"`
}

func genC02(t *rapid.T) c02Case {
	cfg := worldCfg{OnlyEvmCoin: true}
	w := genEvmWorld(t, cfg)
	cs := c02Case{World: w, Proposer: rapid.IntRange(0, 2).Draw(t, "proposer"), Dt: rapid.Int64Range(1, 30).Draw(t, "dt")}
	for n := rapid.IntRange(0, 2).Draw(t, "npre"); n > 0; n-- {
		cs.Preamble = append(cs.Preamble, genEthPlan(t, w, cfg, false))
	}
	for n := rapid.IntRange(0, 1).Draw(t, "nbefore"); n > 0; n-- {
		cs.Before = append(cs.Before, genEthPlan(t, w, cfg, false))
	}
	cs.Tx = genEthPlan(t, w, cfg, false)
	switch rapid.IntRange(0, 19).Draw(t, "txvar") {
	case 17:
		cs.Tx.NonceOff = 1
	case 18:
		cs.Tx.NonceOff = -1
	case 19:
		cs.Tx.Value = "2000000000000000000000000"
	}
	return cs
}

// extractEvmState reads the complete EVM-visible state through ctx.
func extractEvmState(c *chain.Chain, ctx sdk.Context) gethref.State {
	st := gethref.State{}
	get := func(addr common.Address) *gethref.Account {
		if a, ok := st[addr]; ok {
			return a
		}
		a := &gethref.Account{Balance: new(big.Int), Storage: map[common.Hash]common.Hash{}}
		st[addr] = a
		return a
	}
	c.App.AccountKeeper.IterateAccounts(ctx, func(a sdk.AccountI) bool {
		get(common.BytesToAddress(a.GetAddress())).Nonce = a.GetSequence()
		return false
	})
	c.App.BankKeeper.IterateAllBalances(ctx, func(addr sdk.AccAddress, coin sdk.Coin) bool {
		if coin.Denom == chain.Denom {
			get(common.BytesToAddress(addr)).Balance = coin.Amount.BigInt()
		}
		return false
	})
	c.App.EvmKeeper.IterateContracts(ctx, func(addr common.Address, codeHash common.Hash) bool {
		get(addr).Code = c.App.EvmKeeper.GetCode(ctx, codeHash)
		return false
	})
	for addr, a := range st {
		c.App.EvmKeeper.ForEachStorage(ctx, addr, func(k, v common.Hash) bool {
			if v != (common.Hash{}) {
				a.Storage[k] = v
			}
			return true
		})
	}
	return st
}

func blockGasLimitOf(w chain.World) uint64 {
	if w.MaxGas == -1 {
		return math.MaxUint64
	}
	if w.MaxGas > 0 {
		return uint64(w.MaxGas)
	}
	return 0
}

var coreErrs = []error{
	core.ErrNonceTooLow, core.ErrNonceTooHigh, core.ErrNonceMax, core.ErrGasLimitReached, core.ErrInsufficientFundsForTransfer,
	core.ErrInsufficientFunds, core.ErrGasUintOverflow, core.ErrIntrinsicGas, core.ErrTxTypeNotSupported, core.ErrTipAboveFeeCap,
	core.ErrTipVeryHigh, core.ErrFeeCapVeryHigh, core.ErrFeeCapTooLow, core.ErrSenderNoEOA,
}

func coreErrClass(err error) string {
	for _, e := range coreErrs {
		if errors.Is(err, e) {
			if e == core.ErrInsufficientFundsForTransfer || e == core.ErrInsufficientFunds {
				return "insufficient funds"
			}
			return e.Error()
		}
	}
	return "other: " + err.Error()
}

// compareStates lists EVM-visible differences (absent == empty).
func compareStates(a, b gethref.State, skip map[common.Address]bool, an, bn string) []string {
	var diffs []string
	for _, addr := range gethref.SortedAddrs(a, b) {
		if skip[addr] {
			continue
		}
		x, y := a[addr], b[addr]
		if x == nil {
			x = &gethref.Account{Balance: new(big.Int)}
		}
		if y == nil {
			y = &gethref.Account{Balance: new(big.Int)}
		}
		if x.Nonce != y.Nonce {
			diffs = append(diffs, fmt.Sprintf("%s nonce: %s=%d %s=%d", addr.Hex(), an, x.Nonce, bn, y.Nonce))
		}
		xb, yb := x.Balance, y.Balance
		if xb == nil {
			xb = new(big.Int)
		}
		if yb == nil {
			yb = new(big.Int)
		}
		if xb.Cmp(yb) != 0 {
			diffs = append(diffs, fmt.Sprintf("%s balance: %s=%s %s=%s", addr.Hex(), an, xb, bn, yb))
		}
		if !bytes.Equal(x.Code, y.Code) {
			diffs = append(diffs, fmt.Sprintf("%s code: %s=%x %s=%x", addr.Hex(), an, x.Code, bn, y.Code))
		}
		keys := map[common.Hash]bool{}
		for k := range x.Storage {
			keys[k] = true
		}
		for k := range y.Storage {
			keys[k] = true
		}
		for k := range keys {
			if x.Storage[k] != y.Storage[k] {
				diffs = append(diffs, fmt.Sprintf("%s storage[%s]: %s=%s %s=%s", addr.Hex(), k.Hex(), an, x.Storage[k].Hex(), bn, y.Storage[k].Hex()))
			}
		}
	}
	return diffs
}

func compareLogs(a, b []*ethtypes.Log) []string {
	var diffs []string
	if len(a) != len(b) {
		return []string{fmt.Sprintf("log count: evermint=%d reference=%d", len(a), len(b))}
	}
	for i := range a {
		if a[i].Address != b[i].Address || !bytes.Equal(a[i].Data, b[i].Data) || len(a[i].Topics) != len(b[i].Topics) {
			diffs = append(diffs, fmt.Sprintf("log %d differs: evermint=%s/%x/%v reference=%s/%x/%v", i, a[i].Address.Hex(), a[i].Data, a[i].Topics, b[i].Address.Hex(), b[i].Data, b[i].Topics))
			continue
		}
		for j := range a[i].Topics {
			if a[i].Topics[j] != b[i].Topics[j] {
				diffs = append(diffs, fmt.Sprintf("log %d topic %d differs", i, j))
			}
		}
	}
	return diffs
}

func decodeEthResponse(data []byte) (*evmtypes.MsgEthereumTxResponse, error) {
	var txMsgData sdk.TxMsgData
	if err := txMsgData.Unmarshal(data); err != nil {
		return nil, err
	}
	if len(txMsgData.MsgResponses) != 1 {
		return nil, fmt.Errorf("expected 1 msg response, got %d", len(txMsgData.MsgResponses))
	}
	var resp evmtypes.MsgEthereumTxResponse
	if err := resp.Unmarshal(txMsgData.MsgResponses[0].Value); err != nil {
		return nil, err
	}
	return &resp, nil
}

// refCompare runs the reference for one observed tx and returns the list of divergences.
type refInput struct {
	pre      gethref.State
	post     gethref.State
	bc       gethref.BlockCtx
	tx       *ethtypes.Transaction
	tr       txRecord
	extraEIP []int
	floor    *big.Int
}

func runC02(cs c02Case) *Outcome {
	o := &Outcome{}
	c, err := chain.NewStarted(cs.World, chain.NodeOpts{})
	if err != nil {
		o.Excluded = "world rejected: " + err.Error()
		return o
	}
	defer c.Close()
	snap := func(ctx sdk.Context) interface{} { return extractEvmState(c, ctx) }
	if len(cs.Preamble) > 0 {
		r := runBlockPlans(c, []BlockPlan{{Dt: 3, Proposer: 0, Txs: cs.Preamble}}, nil)
		if r[0].Err != nil {
			o.dev("", "preamble block failed: %v", r[0].Err)
			return o
		}
	}
	plans := append(append([]TxPlan{}, cs.Before...), cs.Tx)
	recs := runBlockPlans(c, []BlockPlan{{Dt: cs.Dt, Proposer: cs.Proposer, Txs: plans}}, snap)
	br := recs[0]
	if br.Err != nil {
		o.dev("", "block failed: %v", br.Err)
		return o
	}
	tr := br.Txs[len(br.Txs)-1]
	if tr.Pre == nil {
		o.Excluded = "tested tx never reached the ante handler"
		return o
	}
	pre := tr.Pre.(gethref.State)
	post := br.End.(gethref.State)
	tx := tr.Built.Eth

	ctx := c.CommittedCtx()
	chainCfg := c.App.EvmKeeper.GetChainConfig(ctx)
	nv := cs.World.NumVals
	if nv < 1 {
		nv = 1
	}
	coinbase := chain.ValOperKey(cs.Proposer % nv).Addr
	bc := gethref.BlockCtx{Coinbase: coinbase, GasLimit: blockGasLimitOf(cs.World), Number: br.Height, Time: br.Time, BaseFee: br.BaseFee, Hashes: c.Hashes}
	signer := ethtypes.LatestSignerForChainID(big.NewInt(chain.EIP155ID))
	msg, err := tx.AsMessage(signer, br.BaseFee)
	if err != nil {
		o.Excluded = "tx not convertible to a message: " + err.Error()
		return o
	}
	var eips []int
	for _, e := range cs.World.ExtraEIPs {
		eips = append(eips, int(e))
	}
	rules := chainCfg.Rules(big.NewInt(br.Height), false)
	var warm []common.Address
	if rules.IsShanghai {
		warm = append(warm, coinbase) // EIP-3651, a documented difference
	}

	anteOnly := false
	compare := func(ref gethref.Result) []string {
		var diffs []string
		executed := tr.Receipt != nil && tr.Res != nil && tr.Res.Code == 0
		if ref.Err != nil {
			if executed {
				diffs = append(diffs, fmt.Sprintf("reference rejects the tx (%v) but evermint executed it", ref.Err))
			}
			return diffs
		}
		if !tr.admitted() {
			// never applied: admission policy (minimum prices, zero-fee refusal, ...) is not part of this
			// property (C06/C07/C09 cover it); nothing to compare
			anteOnly = true
			return nil
		}
		if !executed {
			return []string{fmt.Sprintf("reference executes the tx but evermint failed it after admission: code=%d log=%s", tr.Res.Code, tr.Res.Log)}
		}
		refVMErr := ""
		if ref.VMErr != nil {
			refVMErr = ref.VMErr.Error()
		}
		if tr.Receipt.VMError != refVMErr {
			diffs = append(diffs, fmt.Sprintf("vm error: evermint=%q reference=%q", tr.Receipt.VMError, refVMErr))
		}
		if tr.Receipt.GasUsed != ref.GasUsed {
			diffs = append(diffs, fmt.Sprintf("gas used: evermint=%d reference=%d", tr.Receipt.GasUsed, ref.GasUsed))
		}
		if resp, err := decodeEthResponse(tr.Res.Data); err != nil {
			diffs = append(diffs, "cannot decode MsgEthereumTxResponse: "+err.Error())
		} else {
			if !bytes.Equal(resp.Ret, ref.Ret) {
				diffs = append(diffs, fmt.Sprintf("return data: evermint=%x reference=%x", resp.Ret, ref.Ret))
			}
			if resp.GasUsed != ref.GasUsed {
				diffs = append(diffs, fmt.Sprintf("response gas used: evermint=%d reference=%d", resp.GasUsed, ref.GasUsed))
			}
		}
		diffs = append(diffs, compareLogs(tr.Receipt.Receipt.Logs, ref.Logs)...)
		skip := map[common.Address]bool{coinbase: true, feeCollector: true}
		diffs = append(diffs, compareStates(post, ref.Post, skip, "evermint", "reference")...)
		return diffs
	}

	ref := gethref.Apply(pre, bc, chainCfg, eips, msg, warm)
	diffs := compare(ref)
	if len(diffs) > 0 {
		// known finding D9: the zero address is warm in evermint
		ref2 := gethref.Apply(pre, bc, chainCfg, eips, msg, append(append([]common.Address{}, warm...), common.Address{}))
		if d2 := compare(ref2); len(d2) == 0 {
			o.Devs = append(o.Devs, Dev{Key: "D9-zero-address-warm", Msg: "diverges from the reference only through the zero address being warm: " + diffs[0]})
			ref = ref2
		} else {
			for _, d := range diffs {
				o.dev("", "%s", d)
			}
		}
	}
	f := ref.Features
	if anteOnly {
		o.label("ante-reject-only")
	}
	switch {
	case ref.Err != nil:
		o.label("ref:consensus-error:" + coreErrClass(ref.Err))
	case ref.VMErr != nil:
		o.label("ref:vmerror")
	default:
		o.label("ref:success")
	}
	if f.Calls > 0 {
		o.label("calls")
	}
	if f.Creates > 0 {
		o.label("creates")
	}
	if f.SelfDestructs > 0 {
		o.label("selfdestruct")
	}
	if f.SubReverts+f.SubFailures > 0 {
		o.label("subframe-failed")
	}
	if f.RefundSeen {
		o.label("refund")
	}
	if f.MaxDepth >= 2 {
		o.label("depth>=2")
	}
	if len(ref.Logs) > 0 {
		o.label("logs")
	}
	o.NonTrivial = ref.Err == nil && !anteOnly && (f.Calls > 0 || f.Creates > 0 || f.SelfDestructs > 0 || f.RefundSeen || f.SubReverts+f.SubFailures > 0)
	return o
}

func TestC02(t *testing.T) { runProp(t, "C02", genC02, runC02) }

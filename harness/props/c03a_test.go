package props

import (
	"bytes"
	"fmt"
	"math/big"
	"sort"
	"sync"
	"testing"

	sdkmath "cosmossdk.io/math"
	sdk "github.com/cosmos/cosmos-sdk/types"
	"github.com/ethereum/go-ethereum/common"
	ethtypes "github.com/ethereum/go-ethereum/core/types"
	"github.com/ethereum/go-ethereum/crypto"
	"pgregory.net/rapid"

	evmtypes "github.com/EscanBE/evermint/v12/x/evm/types"
	evmvm "github.com/EscanBE/evermint/v12/x/evm/vm"

	"verif/harness/chain"
)

// C03 part A — StateDB API: reverted snapshots leave no trace (reference-model oracle).

type sdbOp struct {
	Op   string `json:"op"`
	A    int    `json:"a,omitempty"` // address index in the pool
	B    int    `json:"b,omitempty"` // second address index
	K    int    `json:"k,omitempty"` // slot index
	V    uint64 `json:"v,omitempty"` // value
	Snap int    `json:"snap,omitempty"`
}

type c03aCase struct {
	Ops    []sdbOp `json:"ops"`
	Commit bool    `json:"commit"`
	// Order seeds the order in which the per-account getters are compared after every step (0 = as written): a getter
	// that answers from a private cache may only be wrong until another getter refreshes it
	Order uint64 `json:"order,omitempty"`
}

const c03Pool = 6

func c03Addr(i int) common.Address {
	switch i {
	case 0:
		return chain.K(0).Addr
	case 1:
		return chain.K(1).Addr
	case 2:
		return common.HexToAddress(poolAddr(0))
	case 3:
		return common.HexToAddress(poolAddr(1))
	default:
		return common.HexToAddress(fmt.Sprintf("0xf4e5000000000000000000000000000000000%03x", i))
	}
}

func c03Slot(i int) common.Hash { return common.BigToHash(big.NewInt(int64(i))) }

var (
	c03Once  sync.Once
	c03Chain *chain.Chain
)

func c03World() chain.World {
	w := chain.World{GenesisTime: 1700000000, NumVals: 1, BaseFee: "0", MinGasPrice: "0", MaxGas: -1}
	w.Accounts = []chain.GenAccount{
		{Key: 0, Coins: map[string]string{chain.Denom: "1000000", chain.SecondDenom: "5000"}},
		{Key: 1, Coins: map[string]string{chain.Denom: "2000000"}, Sequence: 3},
	}
	w.Contracts = []chain.GenContract{
		{Addr: poolAddr(0), Code: "6001600055", Nonce: 1, Balance: "777", Storage: map[string]string{c03Slot(1).Hex(): c03Slot(9).Hex(), c03Slot(2).Hex(): c03Slot(5).Hex()}},
		{Addr: poolAddr(1), Code: "00", Nonce: 1, Coins: map[string]string{chain.SecondDenom: "33"}},
	}
	return w
}

func c03Shared() *chain.Chain {
	c03Once.Do(func() {
		c, err := chain.NewStarted(c03World(), chain.NodeOpts{})
		if err != nil {
			panic(err)
		}
		if _, err := c.RunBlock(chain.Block{Dt: 1}); err != nil {
			panic(err)
		}
		c03Chain = c
	})
	return c03Chain
}

// ---- reference model

type mAcct struct {
	Exists   bool
	Nonce    uint64
	Bal, Foo uint64
	Code     []byte
	HasCode  bool
	Storage  map[int]uint64 // presence matters (a zero value is still an entry)
	Original bool           // same incarnation as before the StateDB was created
}

func (a *mAcct) clone() *mAcct {
	b := *a
	b.Code = append([]byte{}, a.Code...)
	b.Storage = map[int]uint64{}
	for k, v := range a.Storage {
		b.Storage[k] = v
	}
	return &b
}

type mState struct {
	Accts     [c03Pool]*mAcct
	Refund    uint64
	Suicided  map[int]bool
	Touched   map[int]bool
	ALAddr    map[int]bool
	ALSlot    map[[2]int]bool
	Logs      []uint64
	Transient map[[2]int]uint64
}

func (s *mState) clone() *mState {
	n := &mState{Refund: s.Refund, Suicided: map[int]bool{}, Touched: map[int]bool{}, ALAddr: map[int]bool{}, ALSlot: map[[2]int]bool{}, Transient: map[[2]int]uint64{}}
	for i, a := range s.Accts {
		n.Accts[i] = a.clone()
	}
	for k, v := range s.Suicided {
		n.Suicided[k] = v
	}
	for k, v := range s.Touched {
		n.Touched[k] = v
	}
	for k, v := range s.ALAddr {
		n.ALAddr[k] = v
	}
	for k, v := range s.ALSlot {
		n.ALSlot[k] = v
	}
	for k, v := range s.Transient {
		n.Transient[k] = v
	}
	n.Logs = append([]uint64{}, s.Logs...)
	return n
}

func (a *mAcct) empty() bool {
	return !a.HasCode && a.Bal == 0 && a.Foo == 0 && a.Nonce == 0 && len(a.Storage) == 0
}

func (a *mAcct) ensure() {
	if !a.Exists {
		a.Exists = true
		a.Nonce = 0
		a.Original = false
	}
}

func (a *mAcct) destroy() {
	*a = mAcct{Storage: map[int]uint64{}}
}

func readModel(c *chain.Chain, ctx sdk.Context) *mState {
	s := &mState{Suicided: map[int]bool{}, Touched: map[int]bool{}, ALAddr: map[int]bool{}, ALSlot: map[[2]int]bool{}, Transient: map[[2]int]uint64{}}
	for i := 0; i < c03Pool; i++ {
		addr := c03Addr(i)
		a := &mAcct{Storage: map[int]uint64{}}
		if acc := c.App.AccountKeeper.GetAccount(ctx, addr.Bytes()); acc != nil {
			a.Exists, a.Nonce, a.Original = true, acc.GetSequence(), true
		}
		a.Bal = c.App.BankKeeper.GetBalance(ctx, addr.Bytes(), chain.Denom).Amount.Uint64()
		a.Foo = c.App.BankKeeper.GetBalance(ctx, addr.Bytes(), chain.SecondDenom).Amount.Uint64()
		ch := c.App.EvmKeeper.GetCodeHash(ctx, addr.Bytes())
		if !evmtypes.IsEmptyCodeHash(ch) {
			a.HasCode = true
			a.Code = c.App.EvmKeeper.GetCode(ctx, ch)
		}
		for k := 0; k < 4; k++ {
			found := false
			var val uint64
			c.App.EvmKeeper.ForEachStorage(ctx, addr, func(key, v common.Hash) bool {
				if key == c03Slot(k) {
					found, val = true, v.Big().Uint64()
					return false
				}
				return true
			})
			if found {
				a.Storage[k] = val
			}
		}
		s.Accts[i] = a
	}
	return s
}

func genC03a(t *rapid.T) c03aCase {
	cs := c03aCase{Commit: rapid.Bool().Draw(t, "commit"), Order: rapid.Uint64Range(0, 1<<20).Draw(t, "order")}
	n := rapid.IntRange(1, 40).Draw(t, "nops")
	ops := []string{"addbal", "subbal", "setnonce", "setcode", "setstate", "clearstate", "suicide", "sd6780", "create", "addrefund", "subrefund",
		"aladdr", "alslot", "log", "tset", "banksend", "foosend", "snapshot", "snapshot", "revert", "revert"}
	for i := 0; i < n; i++ {
		op := sdbOp{Op: rapid.SampledFrom(ops).Draw(t, "op"), A: rapid.IntRange(0, c03Pool-1).Draw(t, "a"), B: rapid.IntRange(0, c03Pool-1).Draw(t, "b"),
			K: rapid.IntRange(0, 3).Draw(t, "k"), V: rapid.Uint64Range(0, 5000).Draw(t, "v"), Snap: rapid.IntRange(0, 7).Draw(t, "snap")}
		cs.Ops = append(cs.Ops, op)
	}
	return cs
}

func runC03a(cs c03aCase) *Outcome {
	o := &Outcome{}
	c := c03Shared()
	base, _ := c.CommittedCtx().CacheContext()
	base = base.WithBlockHeight(c.Height).WithBlockTime(c.Time)
	orig := readModel(c, base)
	sdb := evmvm.NewStateDB(base, common.Address{}, c.App.EvmKeeper, c.App.AccountKeeper, c.App.BankKeeper)

	cur := orig.clone()
	var snaps []*mState // model copies, index = snapshot id
	var pan interface{}
	safely := func(f func()) bool {
		pan = nil
		func() {
			defer func() { pan = recover() }()
			f()
		}()
		return pan == nil
	}
	sawRevertAfterWrite, writesSinceSnap, wroteAfterRevert := false, 0, false
	reverted := false

	check := func(step int, op sdbOp) bool {
		ok := true
		bad := func(f string, a ...interface{}) {
			ok = false
			o.dev("", "step %d (%+v): %s", step, op, fmt.Sprintf(f, a...))
		}
		ctx := sdb.GetCurrentContext()
		for i := 0; i < c03Pool; i++ {
			addr := c03Addr(i)
			m := cur.Accts[i]
			wantHash := common.Hash{}
			if m.HasCode {
				wantHash = crypto.Keccak256Hash(m.Code)
			} else if m.Exists {
				wantHash = common.BytesToHash(evmtypes.EmptyCodeHash)
			}
			getters := []func(){
				func() {
					if got := sdb.GetBalance(addr); got.Uint64() != m.Bal {
						bad("GetBalance(%d)=%s model %d", i, got, m.Bal)
					}
				},
				func() {
					if got := c.App.BankKeeper.GetBalance(ctx, addr.Bytes(), chain.SecondDenom).Amount.Uint64(); got != m.Foo {
						bad("second-denom balance(%d)=%d model %d", i, got, m.Foo)
					}
				},
				func() {
					if got := sdb.GetNonce(addr); got != m.Nonce {
						bad("GetNonce(%d)=%d model %d", i, got, m.Nonce)
					}
				},
				func() {
					if got := sdb.GetCode(addr); !bytes.Equal(got, m.Code) {
						bad("GetCode(%d)=%x model %x", i, got, m.Code)
					}
				},
				func() {
					if got := sdb.GetCodeHash(addr); got != wantHash {
						bad("GetCodeHash(%d)=%s model %s", i, got.Hex(), wantHash.Hex())
					}
				},
				func() {
					if got := sdb.GetCodeSize(addr); got != len(m.Code) {
						bad("GetCodeSize(%d)=%d model %d", i, got, len(m.Code))
					}
				},
				func() {
					if got := sdb.Exist(addr); got != (m.Exists || cur.Suicided[i]) {
						bad("Exist(%d)=%v model %v", i, got, m.Exists || cur.Suicided[i])
					}
				},
				func() {
					if got := sdb.Empty(addr); got != m.empty() {
						bad("Empty(%d)=%v model %v", i, got, m.empty())
					}
				},
				func() {
					if got := sdb.HasSuicided(addr); got != cur.Suicided[i] {
						bad("HasSuicided(%d)=%v model %v", i, got, cur.Suicided[i])
					}
				},
				func() {
					if got := sdb.AddressInAccessList(addr); got != cur.ALAddr[i] {
						bad("AddressInAccessList(%d)=%v model %v", i, got, cur.ALAddr[i])
					}
				},
			}
			if cs.Order != 0 {
				// deterministic Fisher-Yates driven by the case's order seed, the step and the account
				x := cs.Order*6364136223846793005 + uint64(step+2)*1442695040888963407 + uint64(i)
				for n := len(getters) - 1; n > 0; n-- {
					x = x*6364136223846793005 + 1442695040888963407
					j := int((x >> 33) % uint64(n+1))
					getters[n], getters[j] = getters[j], getters[n]
				}
			}
			for _, g := range getters {
				g()
			}
			for k := 0; k < 4; k++ {
				if got := sdb.GetState(addr, c03Slot(k)).Big().Uint64(); got != m.Storage[k] {
					bad("GetState(%d,%d)=%d model %d", i, k, got, m.Storage[k])
				}
				var wantC uint64
				if m.Exists && m.Original && orig.Accts[i].Exists {
					wantC = orig.Accts[i].Storage[k]
				}
				if got := sdb.GetCommittedState(addr, c03Slot(k)).Big().Uint64(); got != wantC {
					bad("GetCommittedState(%d,%d)=%d model %d", i, k, got, wantC)
				}
				if got := sdb.GetTransientState(addr, c03Slot(k)).Big().Uint64(); got != cur.Transient[[2]int{i, k}] {
					bad("GetTransientState(%d,%d)=%d model %d", i, k, got, cur.Transient[[2]int{i, k}])
				}
				aok, sok := sdb.SlotInAccessList(addr, c03Slot(k))
				if aok != cur.ALAddr[i] || sok != cur.ALSlot[[2]int{i, k}] {
					bad("SlotInAccessList(%d,%d)=%v,%v model %v,%v", i, k, aok, sok, cur.ALAddr[i], cur.ALSlot[[2]int{i, k}])
				}
			}
		}
		if got := sdb.GetRefund(); got != cur.Refund {
			bad("GetRefund=%d model %d", got, cur.Refund)
		}
		logs := sdb.GetTransactionLogs()
		if len(logs) != len(cur.Logs) {
			bad("%d logs, model %d", len(logs), len(cur.Logs))
		} else {
			for i, l := range logs {
				if l.BlockNumber != cur.Logs[i] {
					bad("log %d has id %d, model %d", i, l.BlockNumber, cur.Logs[i])
				}
			}
		}
		return ok
	}

	logID := uint64(0)
	for step, op := range cs.Ops {
		a, b := c03Addr(op.A), c03Addr(op.B)
		ma, mb := cur.Accts[op.A], cur.Accts[op.B]
		write := true
		switch op.Op {
		case "addbal":
			if !safely(func() { sdb.AddBalance(a, new(big.Int).SetUint64(op.V)) }) {
				o.dev("", "step %d AddBalance panicked: %v", step, pan)
				return o
			}
			cur.Touched[op.A] = true
			if op.V > 0 {
				ma.ensure()
				ma.Bal += op.V
			}
		case "subbal":
			v := op.V
			if v > ma.Bal {
				v = ma.Bal // the EVM only subtracts what CanTransfer allowed
			}
			if !safely(func() { sdb.SubBalance(a, new(big.Int).SetUint64(v)) }) {
				o.dev("", "step %d SubBalance panicked: %v", step, pan)
				return o
			}
			cur.Touched[op.A] = true
			ma.Bal -= v
		case "setnonce":
			sdb.SetNonce(a, op.V)
			cur.Touched[op.A] = true
			ma.ensure()
			ma.Nonce = op.V
		case "setcode":
			code := []byte{byte(op.V), byte(op.V >> 8), 0x00}
			if op.V%5 == 0 {
				code = nil
			}
			sdb.SetCode(a, code)
			cur.Touched[op.A] = true
			ma.ensure()
			ma.Code, ma.HasCode = append([]byte{}, code...), len(code) > 0
		case "setstate", "clearstate":
			v := op.V
			if op.Op == "clearstate" {
				v = 0
			}
			sdb.SetState(a, c03Slot(op.K), common.BigToHash(new(big.Int).SetUint64(v)))
			cur.Touched[op.A] = true
			ma.ensure()
			ma.Storage[op.K] = v
		case "suicide":
			got := sdb.Suicide(a)
			cur.Touched[op.A] = true
			if got != ma.Exists {
				o.dev("", "step %d: Suicide(%d)=%v but account exists=%v", step, op.A, got, ma.Exists)
			}
			if ma.Exists {
				cur.Suicided[op.A] = true
				ma.Bal = 0
			}
		case "sd6780":
			sdb.Selfdestruct6780(a)
			if ma.Exists && !(ma.Original && orig.Accts[op.A].Exists) {
				cur.Touched[op.A] = true
				cur.Suicided[op.A] = true
				ma.Bal = 0
			}
		case "create":
			if !safely(func() { sdb.CreateAccount(a) }) {
				o.dev("", "step %d CreateAccount panicked: %v", step, pan)
				return o
			}
			cur.Touched[op.A] = true
			bal, foo := ma.Bal, ma.Foo
			ma.destroy()
			ma.Exists, ma.Bal, ma.Foo = true, bal, foo
		case "addrefund":
			sdb.AddRefund(op.V)
			cur.Refund += op.V
		case "subrefund":
			v := op.V
			if v > cur.Refund {
				v = cur.Refund
			}
			sdb.SubRefund(v)
			cur.Refund -= v
		case "aladdr":
			sdb.AddAddressToAccessList(a)
			cur.ALAddr[op.A] = true
		case "alslot":
			sdb.AddSlotToAccessList(a, c03Slot(op.K))
			cur.ALAddr[op.A] = true
			cur.ALSlot[[2]int{op.A, op.K}] = true
		case "log":
			logID++
			sdb.AddLog(&ethtypes.Log{Address: a, BlockNumber: logID})
			cur.Logs = append(cur.Logs, logID)
		case "tset":
			sdb.SetTransientState(a, c03Slot(op.K), common.BigToHash(new(big.Int).SetUint64(op.V)))
			cur.Transient[[2]int{op.A, op.K}] = op.V
		case "banksend", "foosend":
			// a foreign write exactly as a stateful precompile makes it: through the StateDB's current context
			denom, have := chain.Denom, ma.Bal
			if op.Op == "foosend" {
				denom, have = chain.SecondDenom, ma.Foo
			}
			v := op.V
			if v > have {
				v = have
			}
			if v == 0 || op.A == op.B {
				write = false
				break
			}
			err := c.App.BankKeeper.SendCoins(sdb.GetCurrentContext(), a.Bytes(), b.Bytes(), sdk.NewCoins(sdk.NewCoin(denom, sdkmath.NewIntFromUint64(v))))
			if err != nil {
				o.dev("", "step %d: bank send through the current context failed: %v", step, err)
				return o
			}
			mb.ensure()
			if op.Op == "foosend" {
				ma.Foo -= v
				mb.Foo += v
			} else {
				ma.Bal -= v
				mb.Bal += v
			}
		case "snapshot":
			write = false
			id := sdb.Snapshot()
			if id != len(snaps) {
				o.dev("", "step %d: Snapshot returned id %d, expected %d", step, id, len(snaps))
				return o
			}
			snaps = append(snaps, cur.clone())
			writesSinceSnap = 0
		case "revert":
			write = false
			if len(snaps) == 0 {
				continue
			}
			id := op.Snap % len(snaps)
			sdb.RevertToSnapshot(id)
			cur = snaps[id].clone()
			snaps = snaps[:id+1] // the reverted id stays valid (it can be reverted to again); later ones are discarded
			if writesSinceSnap > 0 {
				sawRevertAfterWrite = true
			}
			reverted = true
		}
		if write {
			writesSinceSnap++
			if reverted {
				wroteAfterRevert = true
			}
		}
		if !check(step, op) {
			return o
		}
	}

	// commit or discard
	if cs.Commit {
		var err error
		if !safely(func() { err = sdb.CommitMultiStore(true) }) {
			o.dev("", "CommitMultiStore panicked: %v", pan)
			return o
		}
		if err != nil {
			o.dev("", "CommitMultiStore failed: %v", err)
			return o
		}
		want := cur.clone()
		idx := make([]int, 0)
		for i := range cur.Touched {
			idx = append(idx, i)
		}
		sort.Ints(idx)
		for _, i := range idx {
			if cur.Suicided[i] || want.Accts[i].empty() {
				want.Accts[i].destroy()
			}
		}
		got := readModel(c, base)
		for i := 0; i < c03Pool; i++ {
			g, w := got.Accts[i], want.Accts[i]
			if g.Exists != w.Exists || g.Nonce != w.Nonce || g.Bal != w.Bal || g.Foo != w.Foo || g.HasCode != w.HasCode || !bytes.Equal(g.Code, w.Code) || fmt.Sprint(g.Storage) != fmt.Sprint(w.Storage) {
				o.dev("", "after commit, account %d: stores hold %+v, model %+v (suicided=%v touched=%v)", i, *g, *w, cur.Suicided[i], cur.Touched[i])
			}
		}
		o.label("commit")
	} else {
		got := readModel(c, base)
		for i := 0; i < c03Pool; i++ {
			g, w := got.Accts[i], orig.Accts[i]
			if g.Exists != w.Exists || g.Nonce != w.Nonce || g.Bal != w.Bal || g.Foo != w.Foo || g.HasCode != w.HasCode || fmt.Sprint(g.Storage) != fmt.Sprint(w.Storage) {
				o.dev("", "after discard, account %d: stores hold %+v, originally %+v", i, *g, *w)
			}
		}
		o.label("discard")
	}
	if sawRevertAfterWrite && wroteAfterRevert {
		o.NonTrivial = true
	}
	if sawRevertAfterWrite {
		o.label("revert-after-write")
	}
	return o
}

func TestC03A(t *testing.T) { runProp(t, "C03", genC03a, runC03a) }

package props

import (
	"fmt"
	"testing"
	"time"

	"verif/harness/chain"
)

func TestSmoke(t *testing.T) {
	w := chain.World{GenesisTime: 1700000000, NumVals: 2, BaseFee: "1000000000", MinGasPrice: "0", MaxGas: 40000000,
		Accounts:    []chain.GenAccount{{Key: 0, Coins: map[string]string{chain.Denom: "1000000000000000000000"}}, {Key: 1, Coins: map[string]string{chain.Denom: "1000000000000000000000"}}},
		Erc20Native: true, StakingCpc: true,
	}
	t0 := time.Now()
	c, err := chain.NewStarted(w, chain.NodeOpts{})
	if err != nil {
		t.Fatal(err)
	}
	defer c.Close()
	fmt.Println("start", time.Since(t0))
	etx := chain.EthTx{From: 0, Type: 2, Nonce: 0, Gas: 21000, FeeCap: "2000000000", TipCap: "1", To: chain.K(1).Addr.Hex(), Value: "5"}
	bz, _, err := etx.Build(c.TxCfg)
	if err != nil {
		t.Fatal(err)
	}
	c.SetObserver(func(o chain.Obs) {
		fmt.Println("obs", o.Kind, o.TxIndex, c.App.BankKeeper.GetBalance(o.Ctx, chain.K(1).Acc(), chain.Denom))
	})
	t0 = time.Now()
	res, err := c.RunBlock(chain.Block{Dt: 5, Txs: [][]byte{bz}})
	if err != nil {
		t.Fatal(err)
	}
	fmt.Println("block", time.Since(t0))
	for _, r := range res.TxResults {
		fmt.Println(r.Code, r.Log, r.GasUsed, r.GasWanted, len(r.Events))
	}
	d := c.Dump(c.CommittedCtx())
	n := 0
	for _, kvs := range d {
		n += len(kvs)
	}
	fmt.Println("dump keys", n, len(c.Panics))
}

package props

import (
	"math/big"
	"testing"

	sdk "github.com/cosmos/cosmos-sdk/types"
	ethtypes "github.com/ethereum/go-ethereum/core/types"
	"pgregory.net/rapid"

	"verif/harness/chain"
	"verif/harness/evmgen"
)

// C06 — Only sender-authorised transactions execute, each exactly once.

type c06Case struct {
	World  chain.World `json:"world"`
	Blocks []BlockPlan `json:"blocks"`
}

type c06Snap struct {
	Digest [32]byte
	Seq    [nEOA]uint64
	Exists [nEOA]bool
}

func genC06(t *rapid.T) c06Case {
	cfg := worldCfg{}
	w := genEvmWorld(t, cfg)
	if rapid.IntRange(0, 3).Draw(t, "codeAtEOA") == 3 {
		// key 3 controls an address that holds code: it must not be accepted as a sender
		for i := range w.Accounts {
			if w.Accounts[i].Key == 3 {
				w.Accounts = append(w.Accounts[:i], w.Accounts[i+1:]...)
				break
			}
		}
		w.Contracts = append(w.Contracts, chain.GenContract{Addr: chain.K(3).Addr.Hex(), Code: evmgen.CompileHex(evmgen.Program{{Op: "stop"}}), Balance: eoaFunds})
	}
	if rapid.IntRange(0, 5).Draw(t, "smallblock") == 5 {
		w.MaxGas = rapid.Int64Range(100000, 2000000).Draw(t, "maxgas")
	}
	cs := c06Case{World: w}
	ethMuts := []string{"chainid", "wrongfrom", "tampersig", "tamperdata", "unprotected"}
	bankMuts := []string{"accnum", "chainid", "nosig", "wrongsigner"}
	for b, nb := 0, rapid.IntRange(1, 3).Draw(t, "nblocks"); b < nb; b++ {
		bp := BlockPlan{Dt: rapid.Int64Range(0, 20).Draw(t, "dt"), Proposer: rapid.IntRange(0, 2).Draw(t, "proposer")}
		for n := rapid.IntRange(1, 7).Draw(t, "ntx"); n > 0; n-- {
			switch k := rapid.IntRange(0, 11).Draw(t, "txk"); {
			case k <= 4:
				bp.Txs = append(bp.Txs, genEthPlan(t, w, cfg, false))
			case k <= 6:
				p := genEthPlan(t, w, cfg, false)
				switch rapid.IntRange(0, 2).Draw(t, "mutclass") {
				case 0:
					p.Mut = rapid.SampledFrom(ethMuts).Draw(t, "ethmut")
					if p.Mut == "unprotected" {
						p.Type = 0
					}
				case 1:
					p.NonceOff = rapid.SampledFrom([]int{-1, 1, 2}).Draw(t, "nonceoff")
				case 2:
					p.Value = "2000000000000000000000000" // admitted, execution fails
				}
				bp.Txs = append(bp.Txs, p)
			case k <= 8:
				bp.Txs = append(bp.Txs, TxPlan{Kind: "replay", RBlock: rapid.IntRange(0, 5).Draw(t, "rblock"), RIndex: rapid.IntRange(0, 6).Draw(t, "rindex")})
			case k == 9 && rapid.Bool().Draw(t, "smuggle"):
				// somebody else's Ethereum tx pushed through the Cosmos lane (exec nesting / beside other messages)
				a := rapid.IntRange(0, nEOA-1).Draw(t, "attacker")
				p := TxPlan{Kind: "smuggle", From: a, ToKey: (a + 1 + rapid.IntRange(0, nEOA-2).Draw(t, "victim")) % nEOA, RIndex: rapid.IntRange(0, 4).Draw(t, "layout"), Type: rapid.IntRange(0, 1).Draw(t, "declared")}
				if rapid.Bool().Draw(t, "unprot") {
					p.Mut = "unprotected"
				}
				bp.Txs = append(bp.Txs, p)
			case k == 9:
				bp.Txs = append(bp.Txs, genBankPlan(t))
			default:
				p := genBankPlan(t)
				switch rapid.IntRange(0, 2).Draw(t, "bmutclass") {
				case 0:
					p.Mut = rapid.SampledFrom(bankMuts).Draw(t, "bankmut")
				case 1:
					p.NonceOff = rapid.SampledFrom([]int{-1, 1}).Draw(t, "bnonceoff")
				case 2:
					p.Amount = "9000000000000000000000000" // admitted, execution fails
				}
				bp.Txs = append(bp.Txs, p)
			}
		}
		cs.Blocks = append(cs.Blocks, bp)
	}
	// a declared sender that is not the signer but shares its last 20 bytes: somebody funds the 32-byte account first,
	// later the key signs a tx that names that account as its sender
	if rapid.IntRange(0, 3).Draw(t, "longfrom") == 0 {
		k := rapid.IntRange(0, nEOA-1).Draw(t, "longkey")
		fb := rapid.IntRange(0, len(cs.Blocks)-1).Draw(t, "fundblock")
		fund := TxPlan{Kind: "bank", From: (k + 1 + rapid.IntRange(0, nEOA-2).Draw(t, "funder")) % nEOA, ToKey: 100 + k, Gas: 200000, CapOver: 1, Amount: "50000000000000000000"}
		cs.Blocks[fb].Txs = append([]TxPlan{fund}, cs.Blocks[fb].Txs...)
		p := genEthPlan(t, w, cfg, false)
		p.From, p.Mut, p.NonceOff = k, "longfrom", 0
		ub := rapid.IntRange(fb, len(cs.Blocks)).Draw(t, "useblock")
		if ub == len(cs.Blocks) || ub == fb {
			cs.Blocks = append(cs.Blocks, BlockPlan{Dt: 3, Txs: []TxPlan{p}})
		} else {
			cs.Blocks[ub].Txs = append(cs.Blocks[ub].Txs, p)
		}
	}
	return cs
}

func runC06(cs c06Case) *Outcome {
	o := &Outcome{}
	c, err := chain.NewStarted(cs.World, chain.NodeOpts{})
	if err != nil {
		o.Excluded = "world rejected: " + err.Error()
		return o
	}
	defer c.Close()
	snap := func(ctx sdk.Context) interface{} {
		s := &c06Snap{Digest: c.Dump(ctx).Digest()}
		for i := 0; i < nEOA; i++ {
			_, s.Seq[i], s.Exists[i] = c.AccountInfo(ctx, chain.K(i).Acc())
		}
		return s
	}
	recs := runBlockPlans(c, cs.Blocks, snap)
	signer := ethtypes.LatestSignerForChainID(big.NewInt(chain.EIP155ID))
	admittedBytes := map[string]int{}
	nAdmitted, nMutant, nReplay, nAdmittedFailed := 0, 0, 0, 0
	for bi, br := range recs {
		if br.Err != nil {
			o.dev("", "block %d failed: %v", bi, br.Err)
			return o
		}
		for ti, tr := range br.Txs {
			if tr.Pre == nil || tr.Post == nil {
				o.label("not-reached")
				continue
			}
			pre, post := tr.Pre.(*c06Snap), tr.Post.(*c06Snap)
			plan := tr.Built.Plan
			mutated := plan.Mut != "" && plan.Kind != "smuggle"
			isReplay := tr.Built.ReplayOf != nil
			if isReplay {
				nReplay++
			}
			if (mutated || plan.NonceOff != 0) && !isReplay {
				nMutant++
			}
			sender := -1
			if tr.Built.Eth != nil || plan.Kind == "bank" || plan.Kind == "smuggle" || (isReplay && tr.Built.Sender != [20]byte{}) {
				for i := 0; i < nEOA; i++ {
					if chain.K(i).Addr == tr.Built.Sender {
						sender = i
					}
				}
			}
			if plan.Kind == "smuggle" {
				o.label("smuggle")
				if tr.Res != nil && len(findEvents(tr.Res.Events, "tx_receipt")) > 0 {
					o.dev("", "b%d t%d: an Ethereum message was executed through the Cosmos lane (layout %d)", bi, ti, plan.RIndex)
				}
			}
			if tr.admitted() {
				nAdmitted++
				o.label("admitted")
				admittedBytes[string(tr.Built.Bytes)]++
				if admittedBytes[string(tr.Built.Bytes)] > 1 {
					o.dev("", "b%d t%d: the same signed transaction was admitted %d times", bi, ti, admittedBytes[string(tr.Built.Bytes)])
				}
				if mutated {
					o.dev("", "b%d t%d: mutated tx (mut=%q) was admitted", bi, ti, plan.Mut)
				}
				if tr.Built.Eth == nil && sender >= 0 && tr.Built.SignedSeq != pre.Seq[sender] {
					o.dev("", "b%d t%d: Cosmos tx signed with sequence %d admitted while the account sequence was %d", bi, ti, tr.Built.SignedSeq, pre.Seq[sender])
				}
				if tx := tr.Built.Eth; tx != nil {
					// harness-side authorisation check
					from, serr := ethtypes.Sender(signer, tx)
					if serr != nil || from != tr.Built.Sender {
						o.dev("", "b%d t%d: admitted Ethereum tx whose signature does not recover to its declared sender (%v)", bi, ti, serr)
					}
					if !tx.Protected() || tx.ChainId().Cmp(big.NewInt(chain.EIP155ID)) != 0 {
						o.dev("", "b%d t%d: admitted Ethereum tx is not replay-protected for this chain (chain id %v)", bi, ti, tx.ChainId())
					}
					if sender >= 0 && tx.Nonce() != pre.Seq[sender] {
						o.dev("", "b%d t%d: admitted with nonce %d while the account sequence was %d", bi, ti, tx.Nonce(), pre.Seq[sender])
					}
					if sender == 3 && len(cs.World.Contracts) > 0 && cs.World.Contracts[len(cs.World.Contracts)-1].Addr == chain.K(3).Addr.Hex() {
						o.dev("", "b%d t%d: admitted a tx sent from an address holding code", bi, ti)
					}
				}
				if tr.Res.Code != 0 {
					nAdmittedFailed++
					o.label("admitted-then-failed")
				}
			} else {
				o.label("rejected")
				if pre.Digest != post.Digest {
					o.dev("", "b%d t%d: rejected tx (%v) changed state", bi, ti, tr.AnteErr)
				}
				if tr.Res.Code == 0 {
					o.dev("", "b%d t%d: rejected by the ante handler but result code 0", bi, ti)
				}
			}
			for i := 0; i < nEOA; i++ {
				want := pre.Seq[i]
				if tr.admitted() && i == sender {
					want++
				}
				if post.Seq[i] != want {
					o.dev("", "b%d t%d: sequence of key %d went %d -> %d, expected %d (admitted=%v sender=%d code=%d)", bi, ti, i, pre.Seq[i], post.Seq[i], want, tr.admitted(), sender, tr.Res.Code)
				}
			}
		}
	}
	o.NonTrivial = nAdmitted >= 1 && nMutant >= 1 && (nReplay >= 1 || nAdmittedFailed >= 1)
	if nReplay > 0 {
		o.label("has-replay")
	}
	return o
}

func TestC06(t *testing.T) { runProp(t, "C06", genC06, runC06) }

package props

import (
	"encoding/hex"
	"fmt"
	"math/big"
	"strconv"
	"strings"
	"testing"

	sdk "github.com/cosmos/cosmos-sdk/types"
	"github.com/ethereum/go-ethereum/common"
	"pgregory.net/rapid"

	"verif/harness/chain"
	"verif/harness/evmgen"
)

// C03 part B — call trees with stateful-precompile writes inside failing frames.
//
// Metamorphic oracle: a frame that fails (REVERT / INVALID / out of gas) must be indistinguishable, in the
// final state of every module, from the same frame doing nothing before it fails. Both variants run from the
// same genesis; only the call data that switches the frame's effects on or off differs.

type c03bEffect struct {
	Kind string `json:"kind"` // sstore | log | erc20transfer | erc20approve | erc20transferFrom | erc20burnFrom | delegate | pay | create | tsend
	Slot int    `json:"slot,omitempty"`
	Val  uint64 `json:"val,omitempty"`
	To   int    `json:"to,omitempty"`
}

type c03bFrame struct {
	Effects []c03bEffect `json:"effects"`
	Child   *c03bFrame   `json:"child,omitempty"`
	ChildOp string       `json:"child_op,omitempty"` // call | delegatecall | callcode
	Term    string       `json:"term"`               // stop | return | revert | invalid | oog
}

type c03bCase struct {
	Frames    []c03bFrame `json:"frames"`
	TopRevert bool        `json:"top_revert"`
	NumVals   int         `json:"num_vals"`
}

func (f c03bFrame) fails() bool { return f.Term == "revert" || f.Term == "invalid" || f.Term == "oog" }

func frameAddr(i int) string { return poolAddr(i) }
func childAddr(i int) string { return poolAddr(0x20 + i) }

const wrapperAddr = "0xc0de0000000000000000000000000000000000ff"

// c03bParty maps an effect's To to an address: 0..2 = EOAs, 3.. = the top-level frame contracts (so that allowances
// granted in one frame can be spent by another frame of the same transaction).
func c03bParty(to, nframes int) common.Address {
	if to >= 3 && nframes > 0 {
		return common.HexToAddress(frameAddr((to - 3) % nframes))
	}
	return chain.K(1 + to%3).Addr
}

func c03bEffectStmts(e c03bEffect, nv, nframes int) []evmgen.Stmt {
	to := chain.K(1 + e.To%3).Addr
	if strings.HasPrefix(e.Kind, "erc20") {
		to = c03bParty(e.To, nframes) // a token recipient / spender runs no code
	}
	amt := new(big.Int).SetUint64(e.Val)
	switch e.Kind {
	case "sstore":
		return []evmgen.Stmt{{Op: "sstore", A: strconv.Itoa(e.Slot), B: fmt.Sprintf("0x%x", e.Val+1)}}
	case "log":
		return []evmgen.Stmt{{Op: "log", N: uint64(e.Slot % 5), M: e.Val % 40}}
	case "erc20transfer":
		return []evmgen.Stmt{{Op: "call", A: erc20NativeAddr().Hex(), B: "0", N: 100000, Data: packErc20("transfer", to, amt)}}
	case "erc20approve":
		return []evmgen.Stmt{{Op: "call", A: erc20NativeAddr().Hex(), B: "0", N: 100000, Data: packErc20("approve", to, amt)}}
	case "erc20transferFrom": // spends the allowance the frame contract Slot granted to the executing contract
		return []evmgen.Stmt{{Op: "call", A: erc20NativeAddr().Hex(), B: "0", N: 100000, Data: packErc20("transferFrom", common.HexToAddress(frameAddr(e.Slot%nframes)), to, amt)}}
	case "erc20burnFrom":
		return []evmgen.Stmt{{Op: "call", A: erc20NativeAddr().Hex(), B: "0", N: 100000, Data: packErc20("burnFrom", common.HexToAddress(frameAddr(e.Slot%nframes)), amt)}}
	case "delegate":
		return []evmgen.Stmt{{Op: "call", A: stakingCpcAddr().Hex(), B: "0", N: 1200000, Data: packStaking("delegate", chain.ValOperKey(e.To%nv).Addr, amt)}}
	case "pay":
		return []evmgen.Stmt{{Op: "call", A: to.Hex(), B: strconv.FormatUint(e.Val, 10)}}
	case "create":
		return []evmgen.Stmt{{Op: "create", B: strconv.FormatUint(e.Val%1000, 10), Data: c03bInitCode(e.Val)}}
	case "tsend": // staking precompile transfer: moves delegation
		return []evmgen.Stmt{{Op: "call", A: stakingCpcAddr().Hex(), B: "0", N: 1200000, Data: packStaking("transfer", to, amt)}}
	}
	panic("bad effect " + e.Kind)
}

// c03bInitCode is init code that writes a slot and deploys runtime code never seen before (it embeds val), so that a
// creation inside a failing frame would leave a new code record behind if anything of it survived.
func c03bInitCode(val uint64) string {
	a := evmgen.NewAsm()
	a.PushU(7).PushU(1).Op(evmgen.SSTORE)
	runtime := evmgen.NewAsm().PushU(val + 0x100000).Op(evmgen.POP).Op(evmgen.STOP).Bytes()
	a.MstoreBytes(0, runtime)
	a.PushU(uint64(len(runtime))).PushU(0).Op(evmgen.RETURN)
	return hex.EncodeToString(a.Bytes())
}

func termStmt(term string) evmgen.Stmt {
	switch term {
	case "return":
		return evmgen.Stmt{Op: "return", N: 32}
	case "revert":
		return evmgen.Stmt{Op: "revert", N: 4}
	case "invalid":
		return evmgen.Stmt{Op: "invalid"}
	case "oog":
		return evmgen.Stmt{Op: "burn", N: 1 << 40}
	}
	return evmgen.Stmt{Op: "stop"}
}

// frameCode: call data byte 0 selects: 1 = effects + child(on), 3 = effects + child(off), anything else = nothing.
func frameCode(f c03bFrame, idx int, nv, nframes int, isChild bool) string {
	var eff []evmgen.Stmt
	for _, e := range f.Effects {
		eff = append(eff, c03bEffectStmts(e, nv, nframes)...)
	}
	var p evmgen.Program
	on := append([]evmgen.Stmt{}, eff...)
	off := append([]evmgen.Stmt{}, eff...)
	if f.Child != nil && !isChild {
		gas := uint64(0)
		if f.Child.Term == "oog" || f.Child.Term == "invalid" {
			gas = 6000000 // these terminals burn everything they are given
		}
		on = append(on, evmgen.Stmt{Op: f.ChildOp, A: childAddr(idx), B: "0", N: gas, Data: "01"})
		off = append(off, evmgen.Stmt{Op: f.ChildOp, A: childAddr(idx), B: "0", N: gas, Data: "00"})
	}
	p = append(p, evmgen.Stmt{Op: "ifcd", N: 1, Sub: on})
	p = append(p, evmgen.Stmt{Op: "ifcd", N: 3, Sub: off})
	p = append(p, termStmt(f.Term))
	return evmgen.CompileHex(p)
}

func c03bWorld(cs c03bCase) chain.World {
	nv := cs.NumVals
	w := chain.World{GenesisTime: 1700000000, NumVals: nv, BaseFee: "0", MinGasPrice: "0", MaxGas: -1, Erc20Native: true, StakingCpc: true}
	for i := 0; i < 4; i++ {
		w.Accounts = append(w.Accounts, chain.GenAccount{Key: i, Coins: map[string]string{chain.Denom: eoaFunds}})
	}
	var a, b evmgen.Program // wrapper: variant 1 (everything on), variant 2 (failing frames do nothing)
	for i, f := range cs.Frames {
		w.Contracts = append(w.Contracts, chain.GenContract{Addr: frameAddr(i), Code: frameCode(f, i, nv, len(cs.Frames), false), Nonce: 1, Balance: "1000000000000000000"})
		if f.Child != nil {
			w.Contracts = append(w.Contracts, chain.GenContract{Addr: childAddr(i), Code: frameCode(*f.Child, i, nv, len(cs.Frames), true), Nonce: 1, Balance: "1000000000000000000"})
		}
		gas := uint64(0)
		if f.Term == "oog" || f.Term == "invalid" {
			gas = 12000000 // these terminals burn everything they are given
		}
		sel := "01"
		switch {
		case f.fails():
			sel = "00"
		case f.Child != nil && f.Child.fails():
			sel = "03"
		}
		a = append(a, evmgen.Stmt{Op: "call", A: frameAddr(i), B: "0", N: gas, Data: "01", Sink: "s" + strconv.Itoa(16+i)})
		b = append(b, evmgen.Stmt{Op: "call", A: frameAddr(i), B: "0", N: gas, Data: sel, Sink: "s" + strconv.Itoa(16+i)})
	}
	wp := evmgen.Program{{Op: "ifcd", N: 1, Sub: a}, {Op: "ifcd", N: 2, Sub: b}, {Op: "sstore", A: "1", B: "0x1"}}
	if cs.TopRevert {
		wp = append(wp, evmgen.Stmt{Op: "revert", N: 0})
	}
	w.Contracts = append(w.Contracts, chain.GenContract{Addr: wrapperAddr, Code: evmgen.CompileHex(wp), Nonce: 1})
	return w
}

func genC03bFrame(t *rapid.T, child bool) c03bFrame {
	kinds := []string{"sstore", "log", "erc20transfer", "erc20approve", "delegate", "pay", "create", "tsend", "erc20transfer", "erc20approve", "delegate", "erc20transferFrom", "erc20burnFrom"}
	f := c03bFrame{Term: rapid.SampledFrom([]string{"stop", "return", "revert", "revert", "invalid", "oog"}).Draw(t, "term")}
	for n := rapid.IntRange(1, 4).Draw(t, "neffects"); n > 0; n-- {
		f.Effects = append(f.Effects, c03bEffect{Kind: rapid.SampledFrom(kinds).Draw(t, "kind"), Slot: rapid.IntRange(0, 7).Draw(t, "slot"),
			Val: rapid.Uint64Range(0, 1000000).Draw(t, "val"), To: rapid.IntRange(0, 5).Draw(t, "to")})
	}
	if !child && rapid.Bool().Draw(t, "haschild") {
		ch := genC03bFrame(t, true)
		f.Child = &ch
		f.ChildOp = rapid.SampledFrom([]string{"call", "call", "delegatecall", "callcode"}).Draw(t, "childop")
	}
	return f
}

func genC03b(t *rapid.T) c03bCase {
	cs := c03bCase{NumVals: rapid.IntRange(1, 3).Draw(t, "nvals"), TopRevert: rapid.IntRange(0, 4).Draw(t, "toprevert") == 4}
	for n := rapid.IntRange(1, 4).Draw(t, "nframes"); n > 0; n-- {
		cs.Frames = append(cs.Frames, genC03bFrame(t, false))
	}
	// allowance flows across frames: frame i approves frame j (or spends what an earlier frame was granted), so
	// that a precompile write of a failing frame is followed by a precompile call that depends on it
	for n := rapid.IntRange(0, 2).Draw(t, "nflows"); n > 0 && len(cs.Frames) >= 2; n-- {
		i := rapid.IntRange(0, len(cs.Frames)-1).Draw(t, "flowowner")
		j := rapid.IntRange(0, len(cs.Frames)-1).Draw(t, "flowspender")
		granted := rapid.Uint64Range(1, 1000000).Draw(t, "flowgrant")
		spent := rapid.SampledFrom([]uint64{granted, granted / 2, granted + 1, 1}).Draw(t, "flowspend")
		kind := rapid.SampledFrom([]string{"erc20transferFrom", "erc20transferFrom", "erc20burnFrom"}).Draw(t, "flowkind")
		cs.Frames[i].Effects = append(cs.Frames[i].Effects, c03bEffect{Kind: "erc20approve", To: 3 + j, Val: granted})
		cs.Frames[j].Effects = append(cs.Frames[j].Effects, c03bEffect{Kind: kind, Slot: i, Val: spent, To: rapid.IntRange(0, 5).Draw(t, "flowto")})
		if rapid.Bool().Draw(t, "respend") {
			k := rapid.IntRange(0, len(cs.Frames)-1).Draw(t, "flowagain")
			cs.Frames[k].Effects = append(cs.Frames[k].Effects, c03bEffect{Kind: kind, Slot: i, Val: spent, To: rapid.IntRange(0, 5).Draw(t, "flowto2")})
		}
	}
	return cs
}

type c03bRun struct {
	pre, post view
	rec       txRecord
}

func c03bExec(w chain.World, variant string) (*c03bRun, error) {
	c, err := chain.NewStarted(w, chain.NodeOpts{})
	if err != nil {
		return nil, err
	}
	defer c.Close()
	// first block: rewards accrue once, and a plain transfer makes the EVM module account exist
	// (it is created lazily by the first mint/burn, a one-time effect unrelated to any frame)
	warm := runBlockPlans(c, []BlockPlan{{Dt: 5, Txs: []TxPlan{{Kind: "eth", From: 1, Type: 0, Gas: 30000, CapOver: 1, To: chain.K(2).Addr.Hex(), Value: "1"}}}}, nil)
	if warm[0].Err != nil {
		return nil, warm[0].Err
	}
	snap := func(ctx sdk.Context) interface{} { return takeView(c, ctx) }
	recs := runBlockPlans(c, []BlockPlan{{Dt: 5, Txs: []TxPlan{{Kind: "eth", From: 0, Type: 0, Gas: 120000000, CapOver: 1, To: wrapperAddr, Value: "0", Data: variant}}}}, snap)
	if recs[0].Err != nil {
		return nil, recs[0].Err
	}
	tr := recs[0].Txs[0]
	if tr.Pre == nil || recs[0].End == nil {
		return nil, fmt.Errorf("tx not observed")
	}
	return &c03bRun{pre: tr.Pre.(view), post: recs[0].End.(view), rec: tr}, nil
}

func runC03b(cs c03bCase) *Outcome {
	o := &Outcome{}
	w := c03bWorld(cs)
	a, err := c03bExec(w, "01")
	if err != nil {
		o.dev("", "variant A failed: %v", err)
		return o
	}
	b, err := c03bExec(w, "02")
	if err != nil {
		o.dev("", "variant B failed: %v", err)
		return o
	}
	sender := chain.K(0).Acc()
	if a.rec.Receipt == nil || b.rec.Receipt == nil {
		o.dev("", "tx not executed: A code=%d %s / B code=%d %s", a.rec.Res.Code, truncS(a.rec.Res.Log, 200), b.rec.Res.Code, truncS(b.rec.Res.Log, 200))
		return o
	}
	// 1. failed frames leave no trace: final state of A == final state of B up to gas
	for _, k := range diffView(a.post, b.post) {
		if feeOnlyKey(k, sender) {
			continue
		}
		o.dev("", "state differs between 'failing frames did their work' and 'failing frames did nothing': %s: %q vs %q", k, a.post[k], b.post[k])
	}
	// logs identical (address, topics, data)
	for _, d := range compareLogs(a.rec.Receipt.Receipt.Logs, b.rec.Receipt.Receipt.Logs) {
		o.dev("", "logs differ between the two variants: %s", d)
	}
	if a.rec.Receipt.HasVMError != b.rec.Receipt.HasVMError {
		o.dev("", "vm error differs between variants: %q vs %q", a.rec.Receipt.VMError, b.rec.Receipt.VMError)
	}
	// 2. whole tx fails: only nonce + fee remain
	if cs.TopRevert {
		if !a.rec.Receipt.HasVMError {
			o.dev("", "top-level REVERT did not surface as a vm error")
		}
		for _, k := range diffView(a.pre, a.post) {
			if !feeOnlyKey(k, sender) {
				o.dev("", "tx ended with a VM error but %s changed: %q -> %q", k, a.pre[k], a.post[k])
			}
		}
		if len(a.rec.Receipt.Receipt.Logs) != 0 {
			o.dev("", "tx ended with a VM error but kept %d logs", len(a.rec.Receipt.Receipt.Logs))
		}
		o.label("top-revert")
	} else {
		// 3. successful frames keep their effects: every sstore of a successful top-level frame is visible
		for i, f := range cs.Frames {
			if f.fails() {
				continue
			}
			want := map[int]uint64{}
			for _, e := range f.Effects {
				if e.Kind == "sstore" {
					want[e.Slot] = e.Val + 1
				}
			}
			if f.Child != nil && !f.Child.fails() && (f.ChildOp == "delegatecall" || f.ChildOp == "callcode") {
				for _, e := range f.Child.Effects {
					if e.Kind == "sstore" {
						want[e.Slot] = e.Val + 1
					}
				}
			}
			for slot, val := range want {
				key := "raw/evm/" + fmt.Sprintf("%x", append(append([]byte{0x02}, common.HexToAddress(frameAddr(i)).Bytes()...), common.BigToHash(big.NewInt(int64(slot))).Bytes()...))
				got := a.post[key]
				if got != fmt.Sprintf("%064x", val) {
					o.dev("", "successful frame %d: storage slot %d holds %q, expected %064x", i, slot, got, val)
				}
			}
			// the wrapper recorded success
			key := "raw/evm/" + fmt.Sprintf("%x", append(append([]byte{0x02}, common.HexToAddress(wrapperAddr).Bytes()...), common.BigToHash(big.NewInt(int64(16+i))).Bytes()...))
			if a.post[key] != fmt.Sprintf("%064x", 1) {
				o.dev("", "frame %d was expected to succeed but the wrapper saw result %q", i, a.post[key])
			}
		}
	}
	// non-triviality: a failing frame (or failing child / top revert) that contains a precompile write
	for _, f := range cs.Frames {
		cpcIn := func(fr c03bFrame) bool {
			for _, e := range fr.Effects {
				if e.Kind == "erc20transfer" || e.Kind == "erc20approve" || e.Kind == "erc20transferFrom" || e.Kind == "erc20burnFrom" || e.Kind == "delegate" || e.Kind == "tsend" {
					return true
				}
			}
			return false
		}
		if (f.fails() || cs.TopRevert) && (cpcIn(f) || (f.Child != nil && cpcIn(*f.Child))) {
			o.NonTrivial = true
		}
		if f.Child != nil && f.Child.fails() && cpcIn(*f.Child) {
			o.NonTrivial = true
		}
		o.label("term:" + f.Term)
	}
	for i, f := range cs.Frames {
		grants := false
		for _, e := range f.Effects {
			if e.Kind == "erc20approve" && e.To >= 3 {
				grants = true
			}
		}
		if !grants || !(f.fails() || cs.TopRevert) {
			continue
		}
		for _, g := range cs.Frames {
			for _, e := range g.Effects {
				if (e.Kind == "erc20transferFrom" || e.Kind == "erc20burnFrom") && e.Slot%len(cs.Frames) == i {
					o.label("spend-of-allowance-granted-in-failing-frame")
				}
			}
		}
	}
	if len(diffView(a.pre, a.post)) > 6 {
		o.label("kept-effects")
	}
	return o
}

func TestC03B(t *testing.T) { runProp(t, "C03", genC03b, runC03b) }

package props

// C08 — simulation and query paths are side-effect free and predict execution.
//
// One case = a generated history driven on chain A with non-consensus calls interleaved after every block
// (eth_call, EstimateGas, TraceTx, TraceBlock with generated tracer configs, every gRPC query of the four custom
// modules, BaseApp.Simulate, CheckTx / ReCheckTx of Ethereum txs whose code writes storage, creates, self-destructs
// and calls state-changing precompiles) and on a twin chain B that executes the very same blocks without any of them.
//
//  (a) store digest: a sorted dump of every committed store and LastCommitID are identical before and after each call
//  (b) metamorphic:  A and B agree block by block on app hash and tx results
//  (c) determinism:  every query gives the same answer twice in a row, again after further blocks (explicit height),
//                    and on the twin
//  (d) prediction:   for the first tx of a block (programs read no block context, sender outside every address pool)
//                    eth_call on the preceding state returns the same data, logs, VM error and gas used as delivering
//                    that tx next; when the tx is sent with gas limit = EstimateGas it does not run out of gas

import (
	"bytes"
	"encoding/hex"
	"encoding/json"
	"fmt"
	"math/big"
	"strconv"
	"strings"
	"testing"
	"time"

	abci "github.com/cometbft/cometbft/abci/types"
	sdk "github.com/cosmos/cosmos-sdk/types"
	"github.com/ethereum/go-ethereum/common"
	"github.com/ethereum/go-ethereum/common/hexutil"
	ethtypes "github.com/ethereum/go-ethereum/core/types"
	"pgregory.net/rapid"

	cpctypes "github.com/EscanBE/evermint/v12/x/cpc/types"
	evmtypes "github.com/EscanBE/evermint/v12/x/evm/types"
	feemarkettypes "github.com/EscanBE/evermint/v12/x/feemarket/types"
	vauthtypes "github.com/EscanBE/evermint/v12/x/vauth/types"

	"verif/harness/chain"
	"verif/harness/evmgen"
)

type c08Call struct {
	Kind string `json:"kind"` // ethcall | estimate | tracetx | traceblock | grpc | simulate | checktx | again
	// ethcall / estimate
	From  int    `json:"from,omitempty"`
	To    string `json:"to,omitempty"`
	Data  string `json:"data,omitempty"`
	Value string `json:"value,omitempty"`
	Gas   uint64 `json:"gas,omitempty"`
	// simulate / checktx
	Plan *TxPlan `json:"plan,omitempty"`
	// tracetx / traceblock: which executed block / tx (taken modulo what exists)
	Block  int    `json:"block,omitempty"`
	Tx     int    `json:"tx,omitempty"`
	Tracer string `json:"tracer,omitempty"`
	Flags  int    `json:"flags,omitempty"` // bit set of struct-logger switches
	Limit  int32  `json:"limit,omitempty"`
	// grpc
	Q    string `json:"q,omitempty"`
	Addr string `json:"addr,omitempty"`
	Slot int    `json:"slot,omitempty"`
	// again: repeat an earlier query (index modulo) at the height it was first asked at
	Ref int `json:"ref,omitempty"`
}

type c08Block struct {
	Plan    BlockPlan `json:"plan"`
	Predict string    `json:"predict,omitempty"` // "" | samegas | estimate : applies to the first tx of the plan
	Calls   []c08Call `json:"calls"`
}

type c08Case struct {
	World  chain.World `json:"world"`
	Blocks []c08Block  `json:"blocks"`
}

var c08Cfg = worldCfg{NoCtx: true, Cpc: true, PoolEOAFrom: 2, Senders: 2}

var c08Queries = []string{"evm/Account", "evm/CosmosAccount", "evm/ValidatorAccount", "evm/Balance", "evm/Storage", "evm/Code", "evm/Params", "evm/BaseFee",
	"feemarket/Params", "feemarket/BaseFee", "cpc/CustomPrecompiledContracts", "cpc/CustomPrecompiledContract", "cpc/Erc20ByDenom", "cpc/Params", "vauth/Proof"}

// genC08Target generates destination, call data and value of a simulated call that writes state.
func genC08Target(t *rapid.T, w chain.World, label string) (to, data, value string) {
	gc := worldGenCfg(w, c08Cfg)
	value = "0"
	switch rapid.IntRange(0, 9).Draw(t, label+"_destk") {
	case 0: // contract creation with generated init code (stores, creates, self-destructs)
		return "", evmgen.GenInit(t, gc), rapid.SampledFrom([]string{"0", "5"}).Draw(t, label+"_cval")
	case 1: // ERC-20 precompile writes
		if rapid.Bool().Draw(t, label+"_approve") {
			return erc20NativeAddr().Hex(), packErc20("approve", chain.K(3).Addr, big.NewInt(int64(rapid.IntRange(0, 1000).Draw(t, label+"_amt")))), "0"
		}
		return erc20NativeAddr().Hex(), packErc20("transfer", chain.K(3).Addr, big.NewInt(int64(rapid.IntRange(0, 1000).Draw(t, label+"_amt")))), "0"
	case 2: // staking precompile writes
		amt := new(big.Int).Mul(big.NewInt(int64(rapid.IntRange(1, 50).Draw(t, label+"_stake"))), big.NewInt(1000000000))
		return stakingCpcAddr().Hex(), packStaking("delegate", chain.ValOperKey(0).Addr, amt), "0"
	case 3: // precompile views
		return stakingCpcAddr().Hex(), packStaking("rewardsOf", chain.K(rapid.IntRange(0, 3).Draw(t, label+"_who")).Addr), "0"
	case 4: // plain transfer
		return chain.K(3).Addr.Hex(), "", strconv.Itoa(rapid.IntRange(0, 1000).Draw(t, label+"_tval"))
	default:
		c := w.Contracts[rapid.IntRange(0, len(w.Contracts)-1).Draw(t, label+"_contract")]
		d := ""
		if rapid.Bool().Draw(t, label+"_hascd") {
			d = fmt.Sprintf("%02x", rapid.IntRange(0, 3).Draw(t, label+"_cd0"))
		}
		return c.Addr, d, rapid.SampledFrom([]string{"0", "0", "3"}).Draw(t, label+"_val")
	}
}

func genC08Call(t *rapid.T, w chain.World, label string) c08Call {
	kinds := []string{"ethcall", "ethcall", "estimate", "estimate", "tracetx", "tracetx", "traceblock", "grpc", "grpc", "simulate", "checktx", "again"}
	c := c08Call{Kind: rapid.SampledFrom(kinds).Draw(t, label+"_kind")}
	switch c.Kind {
	case "ethcall", "estimate":
		c.From = rapid.IntRange(0, 3).Draw(t, label+"_from")
		c.To, c.Data, c.Value = genC08Target(t, w, label)
		c.Gas = rapid.SampledFrom([]uint64{0, 30000, 100000, 1000000, 25000000}).Draw(t, label+"_gas")
	case "simulate", "checktx":
		p := genEthPlan(t, w, c08Cfg, c.Kind == "simulate")
		p.To, p.Data, p.Value = genC08Target(t, w, label)
		if p.Gas < 100000 {
			p.Gas = 400000
		}
		// admission runs ahead of the chain: nonces at or above the committed one
		p.NonceOff = rapid.IntRange(0, 1).Draw(t, label+"_nonceoff")
		p.From = rapid.IntRange(0, 3).Draw(t, label+"_pfrom")
		c.Plan = &p
	case "tracetx", "traceblock":
		c.Block = rapid.IntRange(0, 7).Draw(t, label+"_block")
		c.Tx = rapid.IntRange(0, 7).Draw(t, label+"_tx")
		c.Tracer = rapid.SampledFrom([]string{"", "", "callTracer", "prestateTracer", "4byteTracer", "noopTracer", "{data: [], fault: function(log) {}, step: function(log) { this.data.push(log.op.toString()) }, result: function() { return this.data; }}", "nosuchtracer"}).Draw(t, label+"_tracer")
		c.Flags = rapid.IntRange(0, 31).Draw(t, label+"_flags")
		c.Limit = int32(rapid.SampledFrom([]int{0, 0, 1, 5}).Draw(t, label+"_limit"))
	case "grpc":
		c.Q = rapid.SampledFrom(c08Queries).Draw(t, label+"_q")
		gc := worldGenCfg(w, c08Cfg)
		c.Addr = rapid.SampledFrom(append(append([]string{}, gc.Addrs...), erc20NativeAddr().Hex(), stakingCpcAddr().Hex(), chain.K(0).Addr.Hex(), "0xzz", "")).Draw(t, label+"_addr")
		c.Slot = rapid.IntRange(0, 7).Draw(t, label+"_slot")
	case "again":
		c.Ref = rapid.IntRange(0, 50).Draw(t, label+"_ref")
	}
	return c
}

func genC08(t *rapid.T) c08Case {
	w := genEvmWorld(t, c08Cfg)
	w.Deployers = []int{0}
	// the twin comparison needs blocks that execute identically: any fee-market configuration is fine
	cs := c08Case{World: w}
	for b, nb := 0, rapid.IntRange(1, 4).Draw(t, "nblocks"); b < nb; b++ {
		blk := c08Block{Plan: BlockPlan{Dt: rapid.Int64Range(1, 15).Draw(t, "dt"), Proposer: rapid.IntRange(0, 2).Draw(t, "proposer")}}
		for n := rapid.IntRange(1, 4).Draw(t, "ntx"); n > 0; n-- {
			p := genEthPlan(t, w, c08Cfg, false)
			if rapid.IntRange(0, 2).Draw(t, "special") == 0 {
				p.To, p.Data, p.Value = genC08Target(t, w, "tx")
				if p.Gas < 400000 {
					p.Gas = 1500000
				}
			}
			blk.Plan.Txs = append(blk.Plan.Txs, p)
		}
		blk.Predict = rapid.SampledFrom([]string{"", "samegas", "samegas", "estimate", "estimate"}).Draw(t, "predict")
		for n := rapid.IntRange(0, 5).Draw(t, "ncalls"); n > 0; n-- {
			blk.Calls = append(blk.Calls, genC08Call(t, w, fmt.Sprintf("b%dc%d", b, n)))
		}
		cs.Blocks = append(cs.Blocks, blk)
	}
	// the set of custom precompiles changes during the history: an ERC-20 precompile for the secondary denomination is
	// deployed by a tx of some block; calls to its (predictable) address are asked before and after, and every remembered
	// question is asked again at its own height at the end - answers depend on the state of the requested height only
	if rapid.IntRange(0, 2).Draw(t, "deploys") == 0 {
		db := rapid.IntRange(0, len(cs.Blocks)-1).Draw(t, "deployblock")
		cs.Blocks[db].Plan.Txs = append(cs.Blocks[db].Plan.Txs, TxPlan{Kind: "deploy20", From: 0, Gas: 500000, CapOver: gwei})
		for b := range cs.Blocks {
			data := packErc20("name")
			if rapid.Bool().Draw(t, "foobalance") {
				data = packErc20("balanceOf", chain.K(1).Addr)
			}
			cs.Blocks[b].Calls = append(cs.Blocks[b].Calls, c08Call{Kind: "ethcall", From: 1, To: erc20FooAddr().Hex(), Data: data, Value: "0", Gas: 1000000})
			if b >= db && rapid.Bool().Draw(t, "archive") {
				// an archive query right after the set changed, then the same question at the latest height
				cs.Blocks[b].Calls = append(cs.Blocks[b].Calls, c08Call{Kind: "againall"}, c08Call{Kind: "ethcall", From: 2, To: erc20FooAddr().Hex(), Data: data, Value: "0", Gas: 1000000})
			}
		}
		cs.Blocks[len(cs.Blocks)-1].Calls = append(cs.Blocks[len(cs.Blocks)-1].Calls, c08Call{Kind: "againall"})
	}
	return cs
}

// ----------------------------------------------------------------------------

type c08Query struct {
	Path   string
	Data   []byte
	Height int64
	Code   uint32
	Value  []byte
	What   string
}

type c08Exec struct {
	Height int64
	Time   int64
	Hash   []byte
	Prop   []byte
	Msgs   []*evmtypes.MsgEthereumTx // Ethereum messages of the block in order
	Gas    []uint64                  // gas used by each of them in the block
	Failed []bool                    // whether its execution ended with a VM error
	Clean  bool                      // every Ethereum tx of the block that was admitted also executed (has a receipt): Msgs is the whole story
}

func c08CallArgs(from common.Address, to string, data, value string, gas uint64, al ethtypes.AccessList) []byte {
	args := evmtypes.TransactionArgs{From: &from}
	if to != "" {
		a := common.HexToAddress(to)
		args.To = &a
	}
	d := hexutil.Bytes(unhexS(data))
	args.Data = &d
	if value != "" && value != "0" {
		v, _ := new(big.Int).SetString(value, 10)
		args.Value = (*hexutil.Big)(v)
	}
	if gas > 0 {
		g := hexutil.Uint64(gas)
		args.Gas = &g
	}
	if len(al) > 0 {
		args.AccessList = &al
	}
	bz, err := json.Marshal(&args)
	if err != nil {
		panic(err)
	}
	return bz
}

func receiptLogsString(r *ethtypes.Receipt) string {
	if r == nil {
		return "<nil>"
	}
	s := ""
	for _, l := range r.Logs {
		s += fmt.Sprintf("%s/%x/%x;", l.Address.Hex(), l.Topics, l.Data)
	}
	return s
}

func runC08(cs c08Case) *Outcome {
	o := &Outcome{}
	a, err := chain.NewStarted(cs.World, chain.NodeOpts{})
	if err != nil {
		o.Excluded = "world rejected: " + truncS(err.Error(), 80)
		return o
	}
	defer a.Close()
	b, err := chain.NewStarted(cs.World, chain.NodeOpts{})
	if err != nil {
		o.dev("", "twin rejected: %v", err)
		return o
	}
	defer b.Close()
	for _, c := range []*chain.Chain{a, b} {
		if _, err := c.RunBlock(chain.Block{Dt: 5}); err != nil {
			o.dev("", "first block failed: %v", err)
			return o
		}
	}

	digest := func() string {
		d := a.Dump(a.CommittedCtx()).Digest()
		id := a.App.LastCommitID()
		return fmt.Sprintf("%x/%d/%x", d[:], id.Version, id.Hash)
	}
	var asked []c08Query
	var execs []c08Exec
	wrote := false

	// guarded wraps one non-consensus call with the digest oracle (a)
	guarded := func(what string, f func()) {
		before := digest()
		f()
		if after := digest(); after != before {
			o.dev("", "committed state changed across %s: %s -> %s", what, truncS(before, 40), truncS(after, 40))
		}
		if len(a.Panics) > 0 {
			o.dev("", "%s panicked: %s", what, truncS(a.Panics[len(a.Panics)-1], 600))
			a.Panics = nil
		}
	}
	// query asks twice (c) and remembers the answer for later repetition
	query := func(what, path string, data []byte, remember bool) *abci.ResponseQuery {
		var r1 *abci.ResponseQuery
		guarded(what, func() {
			var e1, e2 error
			var r2 *abci.ResponseQuery
			r1, e1 = a.Query(path, data, a.Height)
			r2, e2 = a.Query(path, data, a.Height)
			if (e1 == nil) != (e2 == nil) || (e1 == nil && (r1.Code != r2.Code || !bytes.Equal(r1.Value, r2.Value))) {
				o.dev("", "%s: the same request at the same height gives two different answers", what)
			}
			if e1 != nil {
				r1 = &abci.ResponseQuery{Code: 99999}
			}
		})
		if remember {
			asked = append(asked, c08Query{Path: path, Data: data, Height: a.Height, Code: r1.Code, Value: r1.Value, What: what})
		}
		return r1
	}
	ethCallQ := func(path string, from common.Address, to, data, value string, gas uint64, al ethtypes.AccessList, gasCap uint64, remember bool) *abci.ResponseQuery {
		req := evmtypes.EthCallRequest{Args: c08CallArgs(from, to, data, value, gas, al), GasCap: gasCap}
		bz, _ := req.Marshal()
		r := query(path[len("/ethermint.evm.v1.Query/"):], path, bz, remember)
		// the same request handed to the keeper's query server on a context of the caller: everything the execution
		// writes must stay in the StateDB's own branch, the caller's context reads the same before and after
		kctx, _ := a.CommittedCtx().CacheContext()
		before := a.Dump(kctx).Digest()
		var kerr error
		func() {
			defer func() {
				if rec := recover(); rec != nil {
					kerr = fmt.Errorf("panic: %v", rec)
				}
			}()
			if strings.HasSuffix(path, "EstimateGas") {
				_, kerr = a.App.EvmKeeper.EstimateGas(kctx, &req)
			} else {
				_, kerr = a.App.EvmKeeper.EthCall(kctx, &req)
			}
		}()
		if after := a.Dump(kctx).Digest(); after != before {
			o.dev("", "%s executed by the keeper on a context of the caller changed the stores read through that context", path[len("/ethermint.evm.v1.Query/"):])
		}
		if kerr == nil {
			o.label("keeper-level:executed")
		} else {
			o.label("keeper-level:error")
		}
		return r
	}

	traceCfg := func(c c08Call) *evmtypes.TraceConfig {
		// the trace deadline is wall-clock (5 s by default): on a busy machine a trace may or may not finish in time,
		// which is availability, not state; the requests ask for a deadline that cannot matter
		tc := &evmtypes.TraceConfig{Timeout: "900s", Tracer: c.Tracer, DisableStack: c.Flags&1 != 0, DisableStorage: c.Flags&2 != 0, EnableMemory: c.Flags&4 != 0, EnableReturnData: c.Flags&8 != 0, Debug: c.Flags&16 != 0, Limit: c.Limit}
		if c.Tracer == "callTracer" && c.Flags&1 != 0 {
			tc.TracerJsonConfig = `{"onlyTopCall":true}`
		}
		return tc
	}

	runCall := func(c c08Call, label string) {
		switch c.Kind {
		case "ethcall":
			ethCallQ("/ethermint.evm.v1.Query/EthCall", chain.K(c.From).Addr, c.To, c.Data, c.Value, c.Gas, nil, 25000000, true)
			o.label("call:ethcall")
			wrote = true
		case "estimate":
			ethCallQ("/ethermint.evm.v1.Query/EstimateGas", chain.K(c.From).Addr, c.To, c.Data, c.Value, c.Gas, nil, 25000000, true)
			o.label("call:estimate")
			wrote = true
		case "simulate", "checktx":
			bt := newPlanBuilder(a).build(*c.Plan)
			if c.Kind == "simulate" {
				guarded("Simulate", func() { _, _, _ = a.Simulate(bt.Bytes) })
				o.label("call:simulate")
			} else {
				var res *abci.ResponseCheckTx
				guarded("CheckTx", func() { res, _ = a.CheckTx(bt.Bytes, false) })
				if res != nil && res.Code == 0 {
					o.label("call:checktx-accepted")
					guarded("ReCheckTx", func() { _, _ = a.CheckTx(bt.Bytes, true) })
				} else {
					o.label("call:checktx-rejected")
				}
			}
			wrote = true
		case "tracetx", "traceblock":
			if len(execs) == 0 {
				return
			}
			ex := execs[c.Block%len(execs)]
			if len(ex.Msgs) == 0 {
				return
			}
			if c.Kind == "tracetx" {
				i := c.Tx % len(ex.Msgs)
				req := evmtypes.QueryTraceTxRequest{Msg: ex.Msgs[i], Predecessors: ex.Msgs[:i], TraceConfig: traceCfg(c), BlockNumber: ex.Height, BlockHash: hex.EncodeToString(ex.Hash), BlockTime: timeOf(ex.Time), ProposerAddress: ex.Prop}
				bz, _ := req.Marshal()
				// the RPC layer runs a trace on the state before the traced block
				var r1, r2 *abci.ResponseQuery
				guarded("TraceTx", func() {
					r1, _ = a.Query("/ethermint.evm.v1.Query/TraceTx", bz, ex.Height-1)
					r2, _ = a.Query("/ethermint.evm.v1.Query/TraceTx", bz, ex.Height-1)
				})
				if r1 != nil && r2 != nil {
					if r1.Code != r2.Code || !bytes.Equal(r1.Value, r2.Value) {
						o.dev("", "TraceTx (%s): the same request gives two different answers", c.Tracer)
					}
					asked = append(asked, c08Query{Path: "/ethermint.evm.v1.Query/TraceTx", Data: bz, Height: ex.Height - 1, Code: r1.Code, Value: r1.Value, What: "TraceTx"})
					if r1.Code == 0 {
						o.label("call:tracetx-ok")
					} else {
						o.label("call:tracetx-err")
					}
					// a trace replays the tx in its block (state before the block + its predecessors): with the default
					// logger it must reproduce what the block did - same gas, same outcome
					if c.Tracer == "" && ex.Clean && i < len(ex.Gas) {
						if r1.Code != 0 {
							o.dev("", "TraceTx of tx %d of block %d (executed in the block with gas %d) fails: %s", i, ex.Height, ex.Gas[i], truncS(r1.Log, 200))
						} else {
							var tresp evmtypes.QueryTraceTxResponse
							var er struct {
								Gas    uint64 `json:"gas"`
								Failed bool   `json:"failed"`
							}
							if err := tresp.Unmarshal(r1.Value); err == nil && json.Unmarshal(tresp.Data, &er) == nil {
								if er.Gas != ex.Gas[i] || er.Failed != ex.Failed[i] {
									o.dev("", "TraceTx of tx %d of block %d reports gas %d failed=%v, the block executed it with gas %d failed=%v", i, ex.Height, er.Gas, er.Failed, ex.Gas[i], ex.Failed[i])
								}
								o.label("tracetx:compared-with-execution")
								if i > 0 {
									o.label("tracetx:compared-with-execution:has-predecessors")
								}
							}
						}
					}
				}
			} else {
				req := evmtypes.QueryTraceBlockRequest{Txs: ex.Msgs, TraceConfig: traceCfg(c), BlockNumber: ex.Height, BlockHash: hex.EncodeToString(ex.Hash), BlockTime: timeOf(ex.Time), ProposerAddress: ex.Prop}
				bz, _ := req.Marshal()
				var r1, r2 *abci.ResponseQuery
				guarded("TraceBlock", func() {
					r1, _ = a.Query("/ethermint.evm.v1.Query/TraceBlock", bz, ex.Height-1)
					r2, _ = a.Query("/ethermint.evm.v1.Query/TraceBlock", bz, ex.Height-1)
				})
				if r1 != nil && r2 != nil {
					if r1.Code != r2.Code || !bytes.Equal(r1.Value, r2.Value) {
						o.dev("", "TraceBlock (%s): the same request gives two different answers", c.Tracer)
					}
					asked = append(asked, c08Query{Path: "/ethermint.evm.v1.Query/TraceBlock", Data: bz, Height: ex.Height - 1, Code: r1.Code, Value: r1.Value, What: "TraceBlock"})
					o.label("call:traceblock")
				}
			}
			wrote = true
		case "grpc":
			path, data := c08Grpc(c)
			query("grpc "+c.Q, path, data, true)
			o.label("call:grpc")
		case "againall":
			for _, q := range asked {
				q := q
				guarded("repeated "+q.What, func() {
					r, err := a.Query(q.Path, q.Data, q.Height)
					if err != nil {
						r = &abci.ResponseQuery{Code: 99999}
					}
					if r.Code != q.Code || !bytes.Equal(r.Value, q.Value) {
						o.dev("", "%s at height %d answers differently after the chain moved on to height %d (code %d -> %d)", q.What, q.Height, a.Height, q.Code, r.Code)
					}
				})
			}
			o.label("call:againall")
		case "again":
			if len(asked) == 0 {
				return
			}
			q := asked[c.Ref%len(asked)]
			guarded("repeated "+q.What, func() {
				r, err := a.Query(q.Path, q.Data, q.Height)
				if err != nil {
					r = &abci.ResponseQuery{Code: 99999}
				}
				if r.Code != q.Code || !bytes.Equal(r.Value, q.Value) {
					o.dev("", "%s at height %d answers differently after the chain moved on to height %d (code %d -> %d)", q.What, q.Height, a.Height, q.Code, r.Code)
				}
			})
			o.label("call:again")
		}
	}

	for bi, blk := range cs.Blocks {
		// build the block's txs on A's committed state
		pb := newPlanBuilder(a)
		var built []builtTx
		var txs [][]byte
		for _, p := range blk.Plan.Txs {
			bt := pb.build(p)
			built = append(built, bt)
			txs = append(txs, bt.Bytes)
		}
		// (d) prediction for the first tx
		type prediction struct {
			resp    *evmtypes.MsgEthereumTxResponse
			useEst  bool
			est     uint64
			applies bool
		}
		var pred prediction
		// the staking precompile reads distribution state that every begin-block moves (reward accrual): its calls
		// depend on block context by nature and are outside the prediction clause
		stakingCall := len(built) > 0 && built[0].Eth != nil && built[0].Eth.To() != nil && *built[0].Eth.To() == stakingCpcAddr()
		if stakingCall && blk.Predict != "" {
			o.label("predict:skipped-staking-precompile")
		}
		if blk.Predict != "" && len(built) > 0 && built[0].Eth != nil && !stakingCall {
			tx := built[0].Eth
			to := ""
			if tx.To() != nil {
				to = tx.To().Hex()
			}
			gas := tx.Gas()
			if blk.Predict == "estimate" {
				r := ethCallQ("/ethermint.evm.v1.Query/EstimateGas", built[0].Sender, to, hex.EncodeToString(tx.Data()), tx.Value().String(), 0, tx.AccessList(), 25000000, true)
				if r.Code == 0 {
					var er evmtypes.EstimateGasResponse
					if err := er.Unmarshal(r.Value); err == nil && er.Gas > 0 {
						pred.useEst, pred.est, gas = true, er.Gas, er.Gas
						// re-sign the tx with the estimated gas limit
						spec := *built[0].Spec
						spec.Gas = er.Gas
						if bz, etx, err := spec.Build(a.TxCfg); err == nil {
							built[0].Bytes, built[0].Eth, txs[0] = bz, etx, bz
							tx = etx
						}
					}
				} else {
					o.label("predict:estimate-error")
				}
			}
			r := ethCallQ("/ethermint.evm.v1.Query/EthCall", built[0].Sender, to, hex.EncodeToString(tx.Data()), tx.Value().String(), gas, tx.AccessList(), 25000000, true)
			if r.Code == 0 {
				resp := &evmtypes.MsgEthereumTxResponse{}
				if err := resp.Unmarshal(r.Value); err == nil {
					pred.resp, pred.applies = resp, true
				}
			} else {
				o.label("predict:ethcall-error")
			}
		}
		// execute on both chains (b)
		ra := execBlock(a, blockRecord{}, blk.Plan.Dt, blk.Plan.Proposer, txs, nil)
		rb := execBlock(b, blockRecord{}, blk.Plan.Dt, blk.Plan.Proposer, txs, nil)
		if ra.Err != nil || rb.Err != nil {
			o.dev("", "block %d failed: with queries err=%v, twin err=%v", bi, ra.Err, rb.Err)
			return o
		}
		if !bytes.Equal(ra.Res.AppHash, rb.Res.AppHash) {
			o.dev("", "block %d: app hash differs between the chain that served queries and its twin", bi)
		}
		for i := range ra.Res.TxResults {
			x, y := ra.Res.TxResults[i], rb.Res.TxResults[i]
			if x.Code != y.Code || x.GasUsed != y.GasUsed || !bytes.Equal(x.Data, y.Data) {
				o.dev("", "block %d tx %d: result differs between the chain that served queries and its twin (code %d/%d gas %d/%d)", bi, i, x.Code, y.Code, x.GasUsed, y.GasUsed)
			}
		}
		ex := c08Exec{Height: a.Height, Time: a.Time.Unix(), Hash: a.Hashes[a.Height], Prop: chain.ValConsAddr(blk.Plan.Proposer % maxInt(1, cs.World.NumVals)), Clean: true}
		for i, bt := range built {
			if bt.Eth == nil || ra.Txs[i].Receipt == nil {
				if ra.Txs[i].admitted() || bt.Eth == nil {
					// admitted without executing (its nonce moved, nothing replays it), or not an Ethereum tx at all (it may
					// have changed what the Ethereum txs after it see)
					ex.Clean = false
				}
				continue
			}
			if dtx, err := a.TxCfg.TxDecoder()(bt.Bytes); err == nil && len(dtx.GetMsgs()) == 1 {
				if m, ok := dtx.GetMsgs()[0].(*evmtypes.MsgEthereumTx); ok {
					ex.Msgs = append(ex.Msgs, m)
					ex.Gas = append(ex.Gas, ra.Txs[i].Receipt.GasUsed)
					ex.Failed = append(ex.Failed, ra.Txs[i].Receipt.HasVMError)
				}
			}
		}
		execs = append(execs, ex)

		// compare the prediction
		if pred.applies {
			tr := ra.Txs[0]
			switch {
			case !tr.admitted():
				o.label("predict:tx-not-admitted")
			case tr.Receipt == nil || tr.Receipt.Receipt == nil:
				o.label("predict:tx-not-executed")
				if pred.useEst && tr.Res != nil && containsAny(tr.Res.Log, "out of gas", "intrinsic gas too low") {
					o.dev("", "block %d: tx sent with gas limit = EstimateGas (%d) failed: %s", bi, pred.est, truncS(tr.Res.Log, 200))
				}
			default:
				o.label("predict:compared")
				o.NonTrivial = true
				got := tr.Receipt
				var delivered evmtypes.MsgEthereumTxResponse
				var msgData sdk.TxMsgData
				if err := msgData.Unmarshal(tr.Res.Data); err == nil && len(msgData.MsgResponses) == 1 {
					_ = delivered.Unmarshal(msgData.MsgResponses[0].Value)
				}
				if pred.resp.VmError != got.VMError {
					o.dev("", "block %d: eth_call predicted VM error %q, delivery gave %q", bi, pred.resp.VmError, got.VMError)
				}
				if !bytes.Equal(pred.resp.Ret, delivered.Ret) {
					o.dev("", "block %d: eth_call predicted return data %x, delivery gave %x", bi, pred.resp.Ret, delivered.Ret)
				}
				if pred.resp.GasUsed != got.GasUsed {
					o.dev("", "block %d: eth_call predicted gas used %d, delivery used %d (gas limit %d)", bi, pred.resp.GasUsed, got.GasUsed, built[0].Eth.Gas())
				}
				pr := &ethtypes.Receipt{}
				if err := pr.UnmarshalBinary(pred.resp.MarshalledReceipt); err == nil {
					if receiptLogsString(pr) != receiptLogsString(got.Receipt) {
						o.dev("", "block %d: eth_call predicted logs %s, delivery emitted %s", bi, truncS(receiptLogsString(pr), 300), truncS(receiptLogsString(got.Receipt), 300))
					}
				}
				if pred.useEst {
					o.label("predict:estimate-used")
					if got.VMError == "out of gas" || containsAny(tr.Res.Log, "out of gas") {
						o.dev("", "block %d: tx sent with gas limit = EstimateGas (%d) ran out of gas", bi, pred.est)
					}
				}
			}
		}
		for ci, c := range blk.Calls {
			runCall(c, fmt.Sprintf("b%dc%d", bi, ci))
		}
	}
	// (c) on the twin: every remembered answer is reproduced from the committed state alone
	for _, q := range asked {
		r, err := b.Query(q.Path, q.Data, q.Height)
		if err != nil {
			r = &abci.ResponseQuery{Code: 99999}
		}
		if r.Code != q.Code || !bytes.Equal(r.Value, q.Value) {
			o.dev("", "%s at height %d: the twin chain (same committed state, never queried before) answers differently (code %d vs %d)", q.What, q.Height, q.Code, r.Code)
		}
	}
	if wrote {
		o.NonTrivial = true
	}
	return o
}

func maxInt(a, b int) int {
	if a > b {
		return a
	}
	return b
}

func c08Grpc(c c08Call) (string, []byte) {
	m := func(p interface{ Marshal() ([]byte, error) }) []byte {
		bz, _ := p.Marshal()
		return bz
	}
	slot := common.BigToHash(big.NewInt(int64(c.Slot))).Hex()
	acc := ""
	if common.IsHexAddress(c.Addr) {
		acc = sdk.AccAddress(common.HexToAddress(c.Addr).Bytes()).String()
	}
	switch c.Q {
	case "evm/Account":
		return "/ethermint.evm.v1.Query/Account", m(&evmtypes.QueryAccountRequest{Address: c.Addr})
	case "evm/CosmosAccount":
		return "/ethermint.evm.v1.Query/CosmosAccount", m(&evmtypes.QueryCosmosAccountRequest{Address: c.Addr})
	case "evm/ValidatorAccount":
		return "/ethermint.evm.v1.Query/ValidatorAccount", m(&evmtypes.QueryValidatorAccountRequest{ConsAddress: sdk.ConsAddress(chain.ValConsAddr(c.Slot % 3)).String()})
	case "evm/Balance":
		return "/ethermint.evm.v1.Query/Balance", m(&evmtypes.QueryBalanceRequest{Address: c.Addr})
	case "evm/Storage":
		return "/ethermint.evm.v1.Query/Storage", m(&evmtypes.QueryStorageRequest{Address: c.Addr, Key: slot})
	case "evm/Code":
		return "/ethermint.evm.v1.Query/Code", m(&evmtypes.QueryCodeRequest{Address: c.Addr})
	case "evm/Params":
		return "/ethermint.evm.v1.Query/Params", m(&evmtypes.QueryParamsRequest{})
	case "evm/BaseFee":
		return "/ethermint.evm.v1.Query/BaseFee", m(&evmtypes.QueryBaseFeeRequest{})
	case "feemarket/Params":
		return "/ethermint.feemarket.v1.Query/Params", m(&feemarkettypes.QueryParamsRequest{})
	case "feemarket/BaseFee":
		return "/ethermint.feemarket.v1.Query/BaseFee", m(&feemarkettypes.QueryBaseFeeRequest{})
	case "cpc/CustomPrecompiledContracts":
		return "/evermint.cpc.v1.Query/CustomPrecompiledContracts", m(&cpctypes.QueryCustomPrecompiledContractsRequest{})
	case "cpc/CustomPrecompiledContract":
		return "/evermint.cpc.v1.Query/CustomPrecompiledContract", m(&cpctypes.QueryCustomPrecompiledContractRequest{Address: c.Addr})
	case "cpc/Erc20ByDenom":
		return "/evermint.cpc.v1.Query/Erc20CustomPrecompiledContractByDenom", m(&cpctypes.QueryErc20CustomPrecompiledContractByDenomRequest{MinDenom: []string{chain.Denom, chain.SecondDenom, ""}[c.Slot%3]})
	case "cpc/Params":
		return "/evermint.cpc.v1.Query/Params", m(&cpctypes.QueryParamsRequest{})
	default:
		return "/evermint.vauth.v1.Query/ProofExternalOwnedAccount", m(&vauthtypes.QueryProofExternalOwnedAccountRequest{Account: acc})
	}
}

func TestC08(t *testing.T) { runProp(t, "C08", genC08, runC08) }

func timeOf(unix int64) time.Time { return time.Unix(unix, 0).UTC() }

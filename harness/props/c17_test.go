package props

import (
	"bytes"
	"encoding/hex"
	"fmt"
	"testing"

	sdk "github.com/cosmos/cosmos-sdk/types"
	authtypes "github.com/cosmos/cosmos-sdk/x/auth/types"
	govtypes "github.com/cosmos/cosmos-sdk/x/gov/types"
	"github.com/ethereum/go-ethereum/common"
	"github.com/ethereum/go-ethereum/crypto"
	"pgregory.net/rapid"

	cpckeeper "github.com/EscanBE/evermint/v12/x/cpc/keeper"
	cpctypes "github.com/EscanBE/evermint/v12/x/cpc/types"

	"verif/harness/chain"
	"verif/harness/evmgen"
)

// C17 — Custom-precompile registry integrity and exact EVM exposure.

type c17Step struct {
	Kind     string `json:"kind"` // deploy20 | deploystaking | params | disable | probe
	Signer   int    `json:"signer,omitempty"`
	Name     int    `json:"name,omitempty"`
	Denom    int    `json:"denom,omitempty"`
	Decimals uint32 `json:"decimals,omitempty"`
	Version  uint32 `json:"version,omitempty"`
	Mask     int    `json:"mask,omitempty"` // whitelist subset of keys 0..3
	Idx      int    `json:"idx,omitempty"`  // which contract / probe address
	Flag     bool   `json:"flag,omitempty"`
}

type c17Case struct {
	Erc20Native bool      `json:"erc20_native"`
	StakingCpc  bool      `json:"staking_cpc"`
	Deployers   []int     `json:"deployers"`
	Steps       []c17Step `json:"steps"`
}

var (
	c17Denoms = []string{chain.SecondDenom, "ubar", chain.Denom, "uzero", "", "bad denom!", "ibc/27394FB092D2ECCD56123C74F36E4C1F926001CEADA9CA97EA622B25F41E5EB2"}
	c17Names  = []string{"Foo", "", "A very long name with spaces and unicode ☃", "Wrapped ETH", "x"}
)

func genC17(t *rapid.T) c17Case {
	cs := c17Case{Erc20Native: rapid.Bool().Draw(t, "erc20native"), StakingCpc: rapid.Bool().Draw(t, "stakingcpc")}
	mask := rapid.IntRange(0, 15).Draw(t, "deployers")
	for i := 0; i < 4; i++ {
		if mask&(1<<i) != 0 {
			cs.Deployers = append(cs.Deployers, i)
		}
	}
	kinds := []string{"deploy20", "deploy20", "deploy20", "deploystaking", "params", "disable", "disable", "redeploy", "redeploy", "probe", "probe"}
	for n := rapid.IntRange(2, 10).Draw(t, "nsteps"); n > 0; n-- {
		s := c17Step{Kind: rapid.SampledFrom(kinds).Draw(t, "kind"), Signer: rapid.IntRange(0, 3).Draw(t, "signer"), Name: rapid.IntRange(0, len(c17Names)-1).Draw(t, "name"),
			Denom: rapid.IntRange(0, len(c17Denoms)-1).Draw(t, "denom"), Decimals: rapid.SampledFrom([]uint32{0, 6, 18, 255, 256, 274}).Draw(t, "decimals"),
			Version: uint32(rapid.IntRange(0, 2).Draw(t, "version")), Mask: rapid.IntRange(0, 15).Draw(t, "mask"), Idx: rapid.IntRange(0, 9).Draw(t, "idx"), Flag: rapid.Bool().Draw(t, "flag")}
		if s.Kind == "redeploy" {
			// the same deployment again (typically after the first one was disabled / the whitelist changed):
			// at most one ERC-20 precompile per denomination must survive any such history
			s.Kind = "deploy20"
			var earlier []c17Step
			for _, e := range cs.Steps {
				if e.Kind == "deploy20" {
					earlier = append(earlier, e)
				}
			}
			if len(earlier) > 0 {
				e := earlier[rapid.IntRange(0, len(earlier)-1).Draw(t, "redeployof")]
				s.Name, s.Denom, s.Decimals = e.Name, e.Denom, e.Decimals
				if rapid.Bool().Draw(t, "samesigner") {
					s.Signer = e.Signer
				}
			}
		} else if s.Kind == "deploy20" && rapid.Bool().Draw(t, "plausible") {
			// bias towards deployments that can succeed
			s.Name, s.Denom, s.Decimals = 0, rapid.IntRange(0, 1).Draw(t, "gooddenom"), 6
			if len(cs.Deployers) > 0 {
				s.Signer = cs.Deployers[rapid.IntRange(0, len(cs.Deployers)-1).Draw(t, "goodsigner")]
			}
		}
		cs.Steps = append(cs.Steps, s)
	}
	cs.Steps = append(cs.Steps, c17Step{Kind: "probe", Idx: rapid.IntRange(0, 9).Draw(t, "lastprobe")})
	return cs
}

type c17Reg struct {
	Metas []cpctypes.CustomPrecompiledContractMeta
	Index map[string]common.Address // min denom -> address
	Ver   uint32
	WL    map[string]bool
}

func c17Read(c *chain.Chain, ctx sdk.Context) *c17Reg {
	r := &c17Reg{Metas: c.App.CPCKeeper.GetAllCustomPrecompiledContractsMeta(ctx), Index: map[string]common.Address{}, WL: map[string]bool{}}
	for _, kv := range c.Dump(ctx)["cpc"] {
		if len(kv.K) > 0 && bytes.HasPrefix(kv.K, cpctypes.KeyPrefixErc20CpcDenomToAddress) && !bytes.HasPrefix(kv.K, cpctypes.KeyPrefixErc20CpcAllowance) {
			r.Index[string(kv.K[len(cpctypes.KeyPrefixErc20CpcDenomToAddress):])] = common.BytesToAddress(kv.V)
		}
	}
	p := c.App.CPCKeeper.GetParams(ctx)
	r.Ver = p.ProtocolVersion
	for _, d := range p.WhitelistedDeployers {
		r.WL[d] = true
	}
	return r
}

func (r *c17Reg) find(addr common.Address) *cpctypes.CustomPrecompiledContractMeta {
	for i := range r.Metas {
		if common.BytesToAddress(r.Metas[i].Address) == addr {
			return &r.Metas[i]
		}
	}
	return nil
}

var (
	selName         = []byte{0x06, 0xfd, 0xde, 0x03}
	selBech32Prefix = unhexS(packBech32("bech32AccountAddrPrefix"))
)

// c17ProberAddr is a contract that reaches a configured address from inside the EVM: a message with exactly
// 64 bytes of call data stores (target, selector word); any other message (empty call data, a value transfer, other
// call data) CALLs target with the 4-byte selector and returns (success word, return data of the inner call).
var c17ProberAddr = common.HexToAddress("0xc170000000000000000000000000000000009be1")

func c17ProberCode() string {
	a := evmgen.NewAsm()
	a.Op(evmgen.CALLDATASIZE).PushU(64).Op(evmgen.EQ).PushLabel("cfg").Op(evmgen.JUMPI)
	a.PushU(1).Op(evmgen.SLOAD).PushU(0).Op(evmgen.MSTORE)
	a.PushU(0).PushU(0).PushU(4).PushU(0).PushU(0).PushU(0).Op(evmgen.SLOAD).Op(evmgen.GAS).Op(evmgen.CALL)
	a.PushU(0).Op(evmgen.MSTORE)
	a.Op(evmgen.RETURNDATASIZE).PushU(0).PushU(32).Op(evmgen.RETURNDATACOPY)
	a.Op(evmgen.RETURNDATASIZE).PushU(32).Op(evmgen.ADD).PushU(0).Op(evmgen.RETURN)
	a.Label("cfg")
	a.PushU(0).Op(evmgen.CALLDATALOAD).PushU(0).Op(evmgen.SSTORE)
	a.PushU(32).Op(evmgen.CALLDATALOAD).PushU(1).Op(evmgen.SSTORE).Op(evmgen.STOP)
	return hex.EncodeToString(a.Bytes())
}

// c17CreateProbe is init code that calls target with the selector and deploys the returned bytes as runtime code:
// the created account has code exactly when the call returned data.
func c17CreateProbe(target common.Address, sel []byte) string {
	a := evmgen.NewAsm()
	a.PushBytes(sel).PushU(224).Op(evmgen.SHL).PushU(0).Op(evmgen.MSTORE)
	a.PushU(0).PushU(0).PushU(4).PushU(0).PushU(0).PushBytes(target.Bytes()).Op(evmgen.GAS).Op(evmgen.CALL).Op(evmgen.POP)
	a.Op(evmgen.RETURNDATASIZE).PushU(0).PushU(0).Op(evmgen.RETURNDATACOPY)
	a.Op(evmgen.RETURNDATASIZE).PushU(0).Op(evmgen.RETURN)
	return hex.EncodeToString(a.Bytes())
}

func runC17(cs c17Case) *Outcome {
	o := &Outcome{}
	w := chain.World{GenesisTime: 1700000000, NumVals: 1, BaseFee: "0", MinGasPrice: "0", MaxGas: -1, Erc20Native: cs.Erc20Native, StakingCpc: cs.StakingCpc, Deployers: cs.Deployers}
	w.Contracts = append(w.Contracts, chain.GenContract{Addr: c17ProberAddr.Hex(), Code: c17ProberCode(), Nonce: 1, Balance: "0"})
	for i := 0; i < 4; i++ {
		w.Accounts = append(w.Accounts, chain.GenAccount{Key: i, Coins: map[string]string{chain.Denom: eoaFunds, chain.SecondDenom: "1000", "ubar": "55",
			"ibc/27394FB092D2ECCD56123C74F36E4C1F926001CEADA9CA97EA622B25F41E5EB2": "9"}})
	}
	c, err := chain.NewStarted(w, chain.NodeOpts{})
	if err != nil {
		o.dev("", "world rejected: %v", err)
		return o
	}
	defer c.Close()
	// warm-up so that the EVM module account exists
	if r := runBlockPlans(c, []BlockPlan{{Dt: 3, Txs: []TxPlan{{Kind: "eth", From: 3, Type: 0, Gas: 30000, CapOver: 1, To: chain.K(2).Addr.Hex(), Value: "1"}}}}, nil); r[0].Err != nil {
		o.dev("", "warm-up block failed: %v", r[0].Err)
		return o
	}
	govAddr := authtypes.NewModuleAddress(govtypes.ModuleName).String()
	types := map[common.Address]uint32{}
	lastVer := uint32(0)
	deployAttempts, rejectedDeploys, probesUnregistered := 0, 0, 0

	checkInvariants := func(step int, r *c17Reg) {
		seen := map[common.Address]bool{}
		denomSeen := map[string]common.Address{}
		for _, m := range r.Metas {
			addr := common.BytesToAddress(m.Address)
			if seen[addr] {
				o.dev("", "step %d: two registered contracts share address %s", step, addr.Hex())
			}
			seen[addr] = true
			if t, ok := types[addr]; ok && t != m.CustomPrecompiledType {
				o.dev("", "step %d: contract %s changed type %d -> %d", step, addr.Hex(), t, m.CustomPrecompiledType)
			}
			types[addr] = m.CustomPrecompiledType
			if m.CustomPrecompiledType == cpctypes.CpcTypeErc20 {
				var em cpctypes.Erc20CustomPrecompiledContractMeta
				if err := jsonUnmarshal(m.TypedMeta, &em); err != nil {
					o.dev("", "step %d: ERC-20 contract %s has undecodable metadata %q", step, addr.Hex(), m.TypedMeta)
					continue
				}
				if prev, dup := denomSeen[em.MinDenom]; dup {
					o.dev("", "step %d: two ERC-20 precompiles (%s, %s) for denomination %q", step, prev.Hex(), addr.Hex(), em.MinDenom)
				}
				denomSeen[em.MinDenom] = addr
				if idx, ok := r.Index[em.MinDenom]; !ok || idx != addr {
					o.dev("", "step %d: denomination index for %q is %v but the metadata lives at %s", step, em.MinDenom, idx, addr.Hex())
				}
			}
		}
		for denom, addr := range r.Index {
			if denomSeen[denom] != addr {
				o.dev("", "step %d: denomination index %q -> %s has no matching ERC-20 metadata", step, denom, addr.Hex())
			}
		}
		if r.Ver < lastVer {
			o.dev("", "step %d: protocol version decreased %d -> %d", step, lastVer, r.Ver)
		}
		lastVer = r.Ver
	}
	checkInvariants(-1, c17Read(c, c.CommittedCtx()))

	for si, st := range cs.Steps {
		ctx := c.CommittedCtx()
		before := c17Read(c, ctx)
		switch st.Kind {
		case "deploy20", "deploystaking":
			deployAttempts++
			signer := chain.K(st.Signer)
			var msg sdk.Msg
			if st.Kind == "deploy20" {
				msg = &cpctypes.MsgDeployErc20ContractRequest{Authority: signer.Acc().String(), Name: c17Names[st.Name], Symbol: "SYM", Decimals: st.Decimals, MinDenom: c17Denoms[st.Denom]}
			} else {
				msg = &cpctypes.MsgDeployStakingContractRequest{Authority: signer.Acc().String(), Symbol: "STK", Decimals: st.Decimals}
			}
			accNum, seq, _ := c.AccountInfo(ctx, signer.Acc())
			bz, err := chain.CosmosTx{Signer: st.Signer, Msgs: []sdk.Msg{msg}, Gas: 600000, FeeAmount: "600000"}.Build(c.TxCfg, c.World.CID(), accNum, seq)
			if err != nil {
				o.label("unbuildable")
				continue
			}
			supplyPositive := st.Kind == "deploy20" && sdk.ValidateDenom(c17Denoms[st.Denom]) == nil && c.App.BankKeeper.GetSupply(ctx, c17Denoms[st.Denom]).IsPositive()
			rec := execBlock(c, blockRecord{}, 3, 0, [][]byte{bz}, nil)
			if rec.Err != nil {
				o.dev("", "step %d: block failed: %v", si, rec.Err)
				return o
			}
			after := c17Read(c, c.CommittedCtx())
			ok := rec.Txs[0].Res.Code == 0
			if ok {
				o.label("deploy-ok:" + st.Kind)
				if !before.WL[signer.Acc().String()] {
					o.dev("", "step %d (%+v): deploy by a signer that is not on the whitelist succeeded", si, st)
				}
				if len(after.Metas) != len(before.Metas)+1 {
					o.dev("", "step %d (%+v): successful deploy changed the number of contracts %d -> %d", si, st, len(before.Metas), len(after.Metas))
				}
				if st.Kind == "deploy20" {
					if !supplyPositive {
						o.dev("", "step %d (%+v): ERC-20 precompile deployed for a denomination without supply", si, st)
					}
					if _, had := before.Index[c17Denoms[st.Denom]]; had {
						o.dev("", "step %d (%+v): second ERC-20 precompile deployed for the same denomination", si, st)
					}
				}
			} else {
				rejectedDeploys++
				o.label("deploy-rejected:" + st.Kind)
				if len(after.Metas) != len(before.Metas) || len(after.Index) != len(before.Index) {
					o.dev("", "step %d (%+v): rejected deploy changed the registry", si, st)
				}
			}
			checkInvariants(si, after)
		case "params":
			var wl []string
			for i := 0; i < 4; i++ {
				if st.Mask&(1<<i) != 0 {
					wl = append(wl, chain.K(i).Acc().String())
				}
			}
			msg := &cpctypes.MsgUpdateParams{Authority: govAddr, NewParams: cpctypes.Params{ProtocolVersion: st.Version, WhitelistedDeployers: wl}}
			if st.Flag && st.Idx%3 == 0 {
				msg.Authority = chain.K(st.Signer).Acc().String() // not the governance authority
			}
			var gerr error
			c.SetObserver(func(ob chain.Obs) {
				if ob.Kind != "end" {
					return
				}
				func() {
					defer func() {
						if r := recover(); r != nil {
							gerr = fmt.Errorf("panic: %v", r)
						}
					}()
					cctx, write := ob.Ctx.CacheContext()
					if _, err := cpckeeper.NewMsgServerImpl(c.App.CPCKeeper).UpdateParams(cctx, msg); err != nil {
						gerr = err
						return
					}
					write()
				}()
			})
			_, err := c.RunBlock(chain.Block{Dt: 3})
			c.SetObserver(nil)
			if err != nil {
				o.dev("", "step %d: block failed: %v", si, err)
				return o
			}
			after := c17Read(c, c.CommittedCtx())
			if gerr == nil {
				o.label("params-updated")
				if msg.Authority != govAddr {
					o.dev("", "step %d (%+v): params updated by a non-governance authority", si, st)
				}
				// an accepted update is stored as requested: the whitelist is exactly the requested set (also the empty one)
				if after.Ver != st.Version {
					o.dev("", "step %d (%+v): accepted params update stored protocol version %d, requested %d", si, st, after.Ver, st.Version)
				}
				if len(after.WL) != len(wl) {
					o.dev("", "step %d (%+v): accepted params update stored %d whitelisted deployers, requested %d", si, st, len(after.WL), len(wl))
				}
				for _, d := range wl {
					if !after.WL[d] {
						o.dev("", "step %d (%+v): accepted params update did not whitelist %s", si, st, d)
					}
				}
				if len(wl) == 0 {
					o.label("whitelist-cleared")
				}
			} else {
				o.label("params-refused")
				if after.Ver != before.Ver || len(after.WL) != len(before.WL) {
					o.dev("", "step %d (%+v): refused params update changed the params", si, st)
				}
			}
			checkInvariants(si, after)
		case "disable":
			if len(before.Metas) == 0 {
				continue
			}
			m := before.Metas[st.Idx%len(before.Metas)]
			m.Disabled = st.Flag
			c.SetObserver(func(ob chain.Obs) {
				if ob.Kind == "end" {
					_ = c.App.CPCKeeper.SetCustomPrecompiledContractMeta(ob.Ctx, m, false)
				}
			})
			_, err := c.RunBlock(chain.Block{Dt: 3})
			c.SetObserver(nil)
			if err != nil {
				o.dev("", "step %d: block failed: %v", si, err)
				return o
			}
			o.label(fmt.Sprintf("disabled-set:%v", st.Flag))
			checkInvariants(si, c17Read(c, c.CommittedCtx()))
		case "probe":
			reg := before
			var addr common.Address
			switch {
			case st.Idx < 4 && len(reg.Metas) > 0:
				addr = common.BytesToAddress(reg.Metas[st.Idx%len(reg.Metas)].Address)
			case st.Idx == 4:
				addr = stakingCpcAddr()
			case st.Idx == 5:
				addr = bech32CpcAddr()
			case st.Idx == 6:
				addr = erc20NativeAddr()
			case st.Idx == 7:
				addr = erc20FooAddr()
			case st.Idx == 8:
				addr = common.HexToAddress(fmt.Sprintf("0xcc%038x", si+1))
			default:
				addr = common.HexToAddress(deadAddr)
			}
			meta := reg.find(addr)
			want := meta != nil && !meta.Disabled
			if meta == nil {
				probesUnregistered++
			}
			for _, sel := range [][]byte{selName, selBech32Prefix} {
				if meta != nil {
					// use the selector the contract type has
					if (meta.CustomPrecompiledType == cpctypes.CpcTypeBech32) != bytes.Equal(sel, selBech32Prefix) {
						continue
					}
				}
				// query mode
				resp, qerr := ethCall(c, chain.K(0).Addr, &addr, sel, nil, 2000000)
				callableQ := qerr == nil && !resp.Failed() && len(resp.Ret) > 0
				// deliver mode
				recs := runBlockPlans(c, []BlockPlan{{Dt: 3, Txs: []TxPlan{{Kind: "eth", From: 3, Type: 0, Gas: 500000, CapOver: 1, To: addr.Hex(), Value: "0", Data: hex.EncodeToString(sel)}}}}, nil)
				if recs[0].Err != nil {
					o.dev("", "step %d: probe block failed: %v", si, recs[0].Err)
					return o
				}
				tr := recs[0].Txs[0]
				callableD := false
				if tr.Receipt != nil && !tr.Receipt.HasVMError {
					if r, err := decodeEthResponse(tr.Res.Data); err == nil && len(r.Ret) > 0 {
						callableD = true
					}
				}
				// the same address reached from inside the EVM, in every shape of outer message: a contract run by a
				// message without call data, by a value transfer, by a message with call data, and init code of a creation
				cfg := hex.EncodeToString(append(common.LeftPadBytes(addr.Bytes(), 32), common.RightPadBytes(sel, 32)...))
				_, k3seq, _ := c.AccountInfo(c.CommittedCtx(), chain.K(3).Acc())
				nrecs := runBlockPlans(c, []BlockPlan{{Dt: 3, Txs: []TxPlan{
					{Kind: "eth", From: 3, Type: 0, Gas: 300000, CapOver: 1, To: c17ProberAddr.Hex(), Value: "0", Data: cfg},
					{Kind: "eth", From: 3, Type: 0, Gas: 500000, CapOver: 1, To: c17ProberAddr.Hex(), Value: "0"},
					{Kind: "eth", From: 3, Type: 0, Gas: 500000, CapOver: 1, To: c17ProberAddr.Hex(), Value: "1"},
					{Kind: "eth", From: 3, Type: 0, Gas: 500000, CapOver: 1, To: c17ProberAddr.Hex(), Value: "0", Data: "00"},
					{Kind: "eth", From: 3, Type: 0, Gas: 3000000, CapOver: 1, Value: "0", Data: c17CreateProbe(addr, sel)},
				}}}, nil)
				if nrecs[0].Err != nil {
					o.dev("", "step %d: nested probe block failed: %v", si, nrecs[0].Err)
					return o
				}
				modes := map[string]bool{"query": callableQ, "deliver": callableD}
				nested := func(ret []byte) bool {
					return len(ret) > 32 && ret[31] == 1
				}
				for i, name := range []string{"", "deliver/nested-empty-calldata", "deliver/nested-value-transfer", "deliver/nested-calldata", "deliver/creation"} {
					ntr := nrecs[0].Txs[i]
					if ntr.Receipt == nil || ntr.Receipt.HasVMError {
						o.dev("", "step %d: nested probe tx %d was not executed successfully: %+v", si, i, ntr.Res)
						return o
					}
					if i == 0 {
						continue
					}
					if i == 4 {
						created := crypto.CreateAddress(chain.K(3).Addr, k3seq+4)
						modes[name] = len(c.App.EvmKeeper.GetCode(c.CommittedCtx(), c.App.EvmKeeper.GetCodeHash(c.CommittedCtx(), created.Bytes()))) > 0
						continue
					}
					r, err := decodeEthResponse(ntr.Res.Data)
					if err != nil {
						o.dev("", "step %d: cannot decode the response of nested probe %d: %v", si, i, err)
						return o
					}
					modes[name] = nested(r.Ret)
				}
				for name, data := range map[string][]byte{"query/nested-empty-calldata": nil, "query/nested-calldata": {0x00}} {
					nresp, nerr := ethCall(c, chain.K(0).Addr, &c17ProberAddr, data, nil, 2000000)
					modes[name] = nerr == nil && !nresp.Failed() && nested(nresp.Ret)
				}
				for mode, got := range modes {
					if got != want {
						key := ""
						if meta != nil && meta.Disabled && got {
							key = "D5-cpc-disabled-unwired"
						}
						o.dev(key, "step %d: address %s (registered=%v disabled=%v) callable in %s mode = %v", si, addr.Hex(), meta != nil, meta != nil && meta.Disabled, mode, got)
					}
				}
			}
			o.label(fmt.Sprintf("probe:registered=%v,disabled=%v", meta != nil, meta != nil && meta.Disabled))
		}
		for _, d := range o.Devs {
			if d.Key == "" {
				return o
			}
		}
	}
	o.NonTrivial = deployAttempts >= 2 && rejectedDeploys >= 1 && probesUnregistered >= 1
	return o
}

func TestC17(t *testing.T) { runProp(t, "C17", genC17, runC17) }

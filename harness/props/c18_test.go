package props

// C18 — genesis export / import round-trips the custom modules' state.
//
// A generated history (contracts with live, cleared and zero-valued slots, creations, self-destructs, deployed ERC-20
// precompile, approvals, ownership proofs, moved base fee, every genesis-flag combination) is executed on chain A;
// A's state is exported with the application's own ExportAppStateAndValidators (at height and for zero height), a fresh
// application B is initialised from that export through InitChain, and
//   (1) the observable state of the four custom modules on B equals A's, section by section,
//   (2) the custom modules' own ExportGenesis on B equals the corresponding sections of the first export,
//   (3) B is alive: it produces the next block, and - for exports at height - the same next block of generated
//       Ethereum transactions gives the same per-tx results on A and B, and eth_call on every contract agrees.

import (
	"bytes"
	sdkmath "cosmossdk.io/math"
	"encoding/hex"
	"encoding/json"
	"fmt"
	"math/big"
	"sort"
	"testing"

	abci "github.com/cometbft/cometbft/abci/types"
	sdk "github.com/cosmos/cosmos-sdk/types"
	"github.com/ethereum/go-ethereum/common"
	"pgregory.net/rapid"

	"github.com/EscanBE/evermint/v12/x/cpc"
	cpctypes "github.com/EscanBE/evermint/v12/x/cpc/types"
	"github.com/EscanBE/evermint/v12/x/evm"
	evmtypes "github.com/EscanBE/evermint/v12/x/evm/types"
	"github.com/EscanBE/evermint/v12/x/feemarket"
	feemarkettypes "github.com/EscanBE/evermint/v12/x/feemarket/types"
	vauthtypes "github.com/EscanBE/evermint/v12/x/vauth/types"

	"verif/harness/chain"
)

type c18Extra struct {
	Kind    string `json:"kind"` // deploy20 | approve | proof | params
	Signer  int    `json:"signer"`
	Token   int    `json:"token,omitempty"`   // approve: 0 native ERC-20 precompile, 1 deployed one
	Spender int    `json:"spender,omitempty"` // key index
	Amt     uint64 `json:"amt,omitempty"`
	Target  int    `json:"target,omitempty"` // proof: extra-key index
}

type c18Case struct {
	World      chain.World `json:"world"`
	Blocks     []BlockPlan `json:"blocks"`
	Extras     []c18Extra  `json:"extras"`
	ZeroHeight bool        `json:"zero_height"`
	Next       BlockPlan   `json:"next"` // block executed on both chains after the round trip
}

func genC18(t *rapid.T) c18Case {
	cfg := worldCfg{NoCtx: true, NoGasRead: true}
	w := genEvmWorld(t, cfg)
	w.Erc20Native = rapid.Bool().Draw(t, "erc20native")
	w.StakingCpc = rapid.Bool().Draw(t, "stakingcpc")
	w.Deployers = []int{0}
	if rapid.Bool().Draw(t, "twodeployers") {
		w.Deployers = []int{0, 2}
	}
	w.MaxGas = rapid.SampledFrom([]int64{-1, 40000000, 3000000}).Draw(t, "maxgas")
	cs := c18Case{World: w, ZeroHeight: rapid.IntRange(0, 3).Draw(t, "zeroheight") == 0}
	for b, nb := 0, rapid.IntRange(1, 3).Draw(t, "nblocks"); b < nb; b++ {
		bp := BlockPlan{Dt: rapid.Int64Range(1, 20).Draw(t, "dt"), Proposer: rapid.IntRange(0, 2).Draw(t, "proposer")}
		for n := rapid.IntRange(1, 5).Draw(t, "ntx"); n > 0; n-- {
			bp.Txs = append(bp.Txs, genEthPlan(t, w, cfg, false))
		}
		cs.Blocks = append(cs.Blocks, bp)
	}
	kinds := []string{"deploy20", "approve", "approve", "proof", "proof", "sendcpc", "sendcpc"}
	for n := rapid.IntRange(0, 5).Draw(t, "nextras"); n > 0; n-- {
		cs.Extras = append(cs.Extras, c18Extra{Kind: rapid.SampledFrom(kinds).Draw(t, "xkind"), Signer: rapid.IntRange(0, 3).Draw(t, "xsigner"),
			Token: rapid.IntRange(0, 1).Draw(t, "xtoken"), Spender: rapid.IntRange(0, 3).Draw(t, "xspender"),
			Amt: rapid.Uint64Range(0, 1<<40).Draw(t, "xamt"), Target: rapid.IntRange(0, 2).Draw(t, "xtarget")})
	}
	cs.Next = BlockPlan{Dt: rapid.Int64Range(1, 10).Draw(t, "nextdt"), Proposer: 0}
	for n := rapid.IntRange(1, 4).Draw(t, "nnext"); n > 0; n-- {
		cs.Next.Txs = append(cs.Next.Txs, genEthPlan(t, w, cfg, false))
	}
	return cs
}

// c18Obs is what a user can observe of the four custom modules.
type c18Obs struct {
	Contracts map[string]string            // address -> code hex
	Storage   map[string]map[string]string // address -> slot -> value (non-zero only)
	EvmParams string
	FeeParams string
	CpcParams string
	CpcMeta   map[string]string // address -> metadata (hex of the stored record)
	CpcType   map[string]uint32
	DenomIdx  map[string]string // denom -> address
	Allow     map[string]string // owner|spender -> amount
	Proofs    map[string]string // account -> record hex
}

func c18Observe(c *chain.Chain, ctx sdk.Context) *c18Obs {
	o := &c18Obs{Contracts: map[string]string{}, Storage: map[string]map[string]string{}, CpcMeta: map[string]string{}, CpcType: map[string]uint32{},
		DenomIdx: map[string]string{}, Allow: map[string]string{}, Proofs: map[string]string{}}
	c.App.EvmKeeper.IterateContracts(ctx, func(addr common.Address, ch common.Hash) bool {
		if evmtypes.IsEmptyCodeHash(ch) {
			return false
		}
		o.Contracts[addrHex(addr)] = hex.EncodeToString(c.App.EvmKeeper.GetCode(ctx, ch))
		return false
	})
	// storage straight from the store, so that slots of addresses without a code hash are seen as well
	for _, kv := range c.Dump(ctx)["evm"] {
		if len(kv.K) == 1+20+32 && bytes.HasPrefix(kv.K, evmtypes.KeyPrefixStorage) {
			v := new(big.Int).SetBytes(kv.V)
			if v.Sign() == 0 {
				continue
			}
			a := addrHex(common.BytesToAddress(kv.K[1:21]))
			if o.Storage[a] == nil {
				o.Storage[a] = map[string]string{}
			}
			o.Storage[a][hex.EncodeToString(kv.K[21:])] = v.Text(16)
		}
	}
	ep := c.App.EvmKeeper.GetParams(ctx)
	o.EvmParams = ep.String()
	fp := c.App.FeeMarketKeeper.GetParams(ctx)
	o.FeeParams = fp.String()
	cp := c.App.CPCKeeper.GetParams(ctx)
	o.CpcParams = cp.String()
	for _, m := range c.App.CPCKeeper.GetAllCustomPrecompiledContractsMeta(ctx) {
		bz, _ := m.Marshal()
		a := addrHex(common.BytesToAddress(m.Address))
		o.CpcMeta[a] = hex.EncodeToString(bz)
		o.CpcType[a] = m.CustomPrecompiledType
	}
	for _, kv := range c.Dump(ctx)["cpc"] {
		switch {
		case bytes.HasPrefix(kv.K, cpctypes.KeyPrefixErc20CpcDenomToAddress):
			o.DenomIdx[string(kv.K[1:])] = addrHex(common.BytesToAddress(kv.V))
		case bytes.HasPrefix(kv.K, cpctypes.KeyPrefixErc20CpcAllowance) && len(kv.K) == 41:
			o.Allow[hex.EncodeToString(kv.K[1:21])+"|"+hex.EncodeToString(kv.K[21:])] = new(big.Int).SetBytes(kv.V).String()
		}
	}
	for _, kv := range c.Dump(ctx)["vauth"] {
		if bytes.HasPrefix(kv.K, vauthtypes.KeyPrefixProofExternalOwnedAccount) {
			o.Proofs[hex.EncodeToString(kv.K[1:])] = hex.EncodeToString(kv.V)
		}
	}
	return o
}

func sortedKeys[V any](m map[string]V) []string {
	ks := make([]string, 0, len(m))
	for k := range m {
		ks = append(ks, k)
	}
	sort.Strings(ks)
	return ks
}

// cmpMap compares two observation maps; lostKey is the finding key for "present before, absent after" ("" = violation).
func cmpMap(o *Outcome, what string, a, b map[string]string, lostKey func(k string) string) {
	for _, k := range sortedKeys(a) {
		vb, ok := b[k]
		switch {
		case !ok:
			o.dev(lostKey(k), "%s %s is lost by export/import (was %s)", what, k, truncS(a[k], 80))
		case vb != a[k]:
			o.dev("", "%s %s differs after export/import: %s -> %s", what, k, truncS(a[k], 80), truncS(vb, 80))
		}
	}
	for _, k := range sortedKeys(b) {
		if _, ok := a[k]; !ok {
			o.dev("", "%s %s appears only after export/import (%s)", what, k, truncS(b[k], 80))
		}
	}
}

const d6 = "D6-genesis-cpc-vauth-lost"

func canonJSON(raw []byte) string {
	var v interface{}
	if err := json.Unmarshal(raw, &v); err != nil {
		return string(raw)
	}
	bz, _ := json.Marshal(v)
	return string(bz)
}

func runC18(cs c18Case) *Outcome {
	o := &Outcome{}
	a, err := chain.NewStarted(cs.World, chain.NodeOpts{})
	if err != nil {
		o.Excluded = "world rejected: " + truncS(err.Error(), 80)
		return o
	}
	defer a.Close()
	recs := runBlockPlans(a, cs.Blocks, nil)
	for _, r := range recs {
		if r.Err != nil {
			o.dev("", "history block failed: %v", r.Err)
			return o
		}
	}
	// extras: one block each
	for _, x := range cs.Extras {
		ctx := a.CommittedCtx()
		accNum, seq, _ := a.AccountInfo(ctx, chain.K(x.Signer).Acc())
		fp := a.App.FeeMarketKeeper.GetParams(ctx)
		price := fp.BaseFee.BigInt()
		if m := fp.MinGasPrice.TruncateInt().BigInt(); m.Cmp(price) > 0 {
			price = m
		}
		price = new(big.Int).Add(price, big.NewInt(1))
		var bz []byte
		switch x.Kind {
		case "deploy20":
			msg := &cpctypes.MsgDeployErc20ContractRequest{Authority: chain.K(x.Signer).Acc().String(), Name: "Foo", Symbol: "FOO", Decimals: 6, MinDenom: chain.SecondDenom}
			bz, err = chain.CosmosTx{Signer: x.Signer, Msgs: []sdk.Msg{msg}, Gas: 500000, FeeAmount: new(big.Int).Mul(price, big.NewInt(500000)).String()}.Build(a.TxCfg, a.World.CID(), accNum, seq)
		case "proof":
			target := chain.ExtraKey(x.Target)
			msg := &vauthtypes.MsgSubmitProofExternalOwnedAccount{Submitter: chain.K(x.Signer).Acc().String(), Account: target.Acc().String(), Signature: c16Signature(target, "valid")}
			bz, err = chain.CosmosTx{Signer: x.Signer, Msgs: []sdk.Msg{msg}, Gas: 500000, FeeAmount: new(big.Int).Mul(price, big.NewInt(500000)).String()}.Build(a.TxCfg, a.World.CID(), accNum, seq)
		case "sendcpc":
			// somebody pays a precompile address with a plain bank send: an x/auth account comes to exist at an address the
			// cpc module re-deploys a fixed-address contract at on import
			to := []common.Address{stakingCpcAddr(), bech32CpcAddr(), erc20NativeAddr(), erc20FooAddr()}[x.Target%4]
			msg := bankSend(chain.K(x.Signer).Acc(), sdk.AccAddress(to.Bytes()), sdk.NewCoins(sdk.NewCoin(chain.Denom, sdkmath.NewInt(int64(1+x.Amt%100000)))))
			bz, err = chain.CosmosTx{Signer: x.Signer, Msgs: []sdk.Msg{msg}, Gas: 300000, FeeAmount: new(big.Int).Mul(price, big.NewInt(300000)).String()}.Build(a.TxCfg, a.World.CID(), accNum, seq)
		case "approve":
			taddr, denom := c10Token(x.Token)
			if got := a.App.CPCKeeper.GetErc20CustomPrecompiledContractAddressByMinDenom(ctx, denom); got == nil {
				continue
			}
			bz, _, err = chain.EthTx{From: x.Signer, Type: 0, Nonce: seq, Gas: 300000, GasPrice: price.String(), To: taddr.Hex(),
				Data: packErc20("approve", chain.K(x.Spender).Addr, new(big.Int).SetUint64(x.Amt))}.Build(a.TxCfg)
		}
		if err != nil || bz == nil {
			continue
		}
		if _, err := a.RunBlock(chain.Block{Dt: 2, Txs: [][]byte{bz}}); err != nil {
			o.dev("", "extra block failed: %v", err)
			return o
		}
	}
	obsA := c18Observe(a, a.CommittedCtx())

	// --- export #1 with the application's own exporter
	exp, err := func() (e struct {
		AppState []byte
		Height   int64
	}, err error) {
		defer func() {
			if r := recover(); r != nil {
				err = fmt.Errorf("panic: %v", r)
			}
		}()
		x, err := a.App.ExportAppStateAndValidators(cs.ZeroHeight, nil, nil)
		e.AppState, e.Height = x.AppState, x.Height
		return e, err
	}()
	if err != nil {
		o.dev("", "ExportAppStateAndValidators(zeroHeight=%v) failed: %v", cs.ZeroHeight, err)
		return o
	}
	var exp1 map[string]json.RawMessage
	if err := json.Unmarshal(exp.AppState, &exp1); err != nil {
		o.dev("", "export is not a JSON object: %v", err)
		return o
	}

	// --- import into a fresh application
	b, err := chain.New(cs.World, chain.NodeOpts{})
	if err != nil {
		o.dev("", "fresh app: %v", err)
		return o
	}
	defer b.Close()
	req := cs.World.InitChainRequest(exp.AppState)
	req.Time = a.Time
	if exp.Height > 1 {
		req.InitialHeight = exp.Height
	}
	if err := func() (err error) {
		defer func() {
			if r := recover(); r != nil {
				err = fmt.Errorf("panic: %v", r)
			}
		}()
		res, err := b.App.InitChain(req)
		if err == nil {
			b.AppHash = res.AppHash
		}
		return err
	}(); err != nil {
		o.dev("", "InitChain from the exported state failed (zeroHeight=%v): %v", cs.ZeroHeight, truncS(err.Error(), 400))
		return o
	}
	b.Time = a.Time
	b.Height = req.InitialHeight - 1

	// (1) observable state
	obsB := c18Observe(b, b.PendingCtx())
	cmpMap(o, "contract code at", obsA.Contracts, obsB.Contracts, func(string) string { return "" })
	for _, addr := range sortedKeys(obsA.Storage) {
		cmpMap(o, "storage of "+addr+" slot", obsA.Storage[addr], obsB.Storage[addr], func(string) string { return "" })
	}
	for _, addr := range sortedKeys(obsB.Storage) {
		if _, ok := obsA.Storage[addr]; !ok {
			o.dev("", "storage of %s appears only after export/import", addr)
		}
	}
	if obsA.EvmParams != obsB.EvmParams {
		o.dev("", "EVM params differ: %s -> %s", obsA.EvmParams, obsB.EvmParams)
	}
	if obsA.FeeParams != obsB.FeeParams {
		o.dev("", "fee-market params (incl. base fee) differ: %s -> %s", obsA.FeeParams, obsB.FeeParams)
	}
	if obsA.CpcParams != obsB.CpcParams {
		o.dev("", "cpc params differ: %s -> %s", obsA.CpcParams, obsB.CpcParams)
	}
	// listed finding D6: ERC-20 precompile registrations, the denomination index, allowances and ownership proofs have no
	// counterpart in the exported genesis types; exactly their *loss* is attributed to it, everything else is strict
	cmpMap(o, "custom precompile metadata at", obsA.CpcMeta, obsB.CpcMeta, func(k string) string {
		if obsA.CpcType[k] == cpctypes.CpcTypeErc20 {
			return d6
		}
		return ""
	})
	cmpMap(o, "denomination index of", obsA.DenomIdx, obsB.DenomIdx, func(string) string { return d6 })
	cmpMap(o, "allowance", obsA.Allow, obsB.Allow, func(string) string { return d6 })
	cmpMap(o, "ownership proof of", obsA.Proofs, obsB.Proofs, func(string) string { return d6 })

	// (2) second export of the custom modules, taken on the freshly imported state
	ctxB := b.PendingCtx()
	cdc := b.App.AppCodec()
	second := map[string]string{
		evmtypes.ModuleName:       string(cdc.MustMarshalJSON(evm.ExportGenesis(ctxB, b.App.EvmKeeper))),
		feemarkettypes.ModuleName: string(cdc.MustMarshalJSON(feemarket.ExportGenesis(ctxB, b.App.FeeMarketKeeper))),
	}
	cg := cpc.ExportGenesis(ctxB, b.App.CPCKeeper)
	second[cpctypes.ModuleName] = string(cdc.MustMarshalJSON(&cg))
	for _, mod := range sortedKeys(second) {
		if canonJSON(exp1[mod]) != canonJSON([]byte(second[mod])) {
			o.dev("", "second export of module %s differs from the first:\n first: %s\nsecond: %s", mod, truncS(canonJSON(exp1[mod]), 600), truncS(canonJSON([]byte(second[mod])), 600))
		}
	}
	// zero-valued slots must not be exported (absent == zero)
	var eg evmtypes.GenesisState
	if err := cdc.UnmarshalJSON(exp1[evmtypes.ModuleName], &eg); err == nil {
		for _, ga := range eg.Accounts {
			for _, s := range ga.Storage {
				if common.HexToHash(s.Value) == (common.Hash{}) {
					o.label("export:zero-valued-slot")
				}
			}
			if len(ga.Storage) > 0 {
				o.label("export:contract-with-storage")
			}
		}
		if len(eg.Accounts) > 0 {
			o.label("export:contracts")
		}
	}

	// (3) liveness and behavioural agreement
	if !cs.ZeroHeight {
		pa := newPlanBuilder(a)
		var txs [][]byte
		for _, p := range cs.Next.Txs {
			txs = append(txs, pa.build(p).Bytes)
		}
		ra, errA := a.RunBlock(chain.Block{Dt: cs.Next.Dt, Proposer: 0, Txs: txs})
		rb, errB := b.RunBlock(chain.Block{Dt: cs.Next.Dt, Proposer: 0, Txs: txs})
		if errA != nil || errB != nil {
			o.dev("", "next block: original chain err=%v, re-imported chain err=%v", errA, errB)
			return o
		}
		for i := range ra.TxResults {
			x, y := ra.TxResults[i], rb.TxResults[i]
			if x.Code != y.Code || x.GasUsed != y.GasUsed || !bytes.Equal(x.Data, y.Data) || c18Receipt(x) != c18Receipt(y) {
				o.dev("", "next block tx %d behaves differently after export/import: code %d/%d gas %d/%d log %q / %q", i, x.Code, y.Code, x.GasUsed, y.GasUsed, truncS(x.Log, 100), truncS(y.Log, 100))
			}
		}
		o.label("next-block-compared")
	} else {
		if _, err := b.RunBlock(chain.Block{Dt: 5}); err != nil {
			o.dev("", "re-imported chain (zero height) cannot produce a block: %v", err)
			return o
		}
		if _, err := a.RunBlock(chain.Block{Dt: 5}); err != nil {
			o.dev("", "original chain cannot produce a block: %v", err)
			return o
		}
		o.label("zero-height")
	}
	// eth_call against every contract on both chains
	for _, addr := range sortedKeys(obsA.Contracts) {
		to := common.HexToAddress(addr)
		for _, cd := range [][]byte{nil, {1}, {2}} {
			x, ex := ethCall(a, chain.K(2).Addr, &to, cd, nil, 3000000)
			y, ey := ethCall(b, chain.K(2).Addr, &to, cd, nil, 3000000)
			if (ex == nil) != (ey == nil) {
				o.dev("", "eth_call %s: error only on one side: %v / %v", addr, ex, ey)
				continue
			}
			if ex == nil && (x.VmError != y.VmError || !bytes.Equal(x.Ret, y.Ret) || x.GasUsed != y.GasUsed || !bytes.Equal(x.MarshalledReceipt, y.MarshalledReceipt)) {
				o.dev("", "eth_call %s (data %x) differs after export/import: err %q/%q gas %d/%d ret %x/%x", addr, cd, x.VmError, y.VmError, x.GasUsed, y.GasUsed, x.Ret, y.Ret)
			}
		}
	}

	hasStorage := false
	for _, m := range obsA.Storage {
		if len(m) > 0 {
			hasStorage = true
		}
	}
	hasErc20 := false
	for _, tp := range obsA.CpcType {
		if tp == cpctypes.CpcTypeErc20 {
			hasErc20 = true
		}
	}
	if hasErc20 {
		o.label("state:erc20-precompile")
	}
	if len(obsA.Allow) > 0 {
		o.label("state:allowance")
	}
	if len(obsA.Proofs) > 0 {
		o.label("state:proof")
	}
	o.NonTrivial = hasStorage && (hasErc20 || len(obsA.Allow) > 0 || len(obsA.Proofs) > 0 || len(obsA.Contracts) > len(cs.World.Contracts))
	return o
}

// c18Receipt renders the consensus-visible receipt content of a tx result (logs, status, gas).
func c18Receipt(r *abci.ExecTxResult) string {
	for _, e := range r.Events {
		if e.Type == "tx_receipt" {
			pr, err := parseReceiptEvent(e)
			if err != nil || pr.Receipt == nil {
				return "unparsable"
			}
			s := fmt.Sprintf("status=%d gas=%d logs=%d", pr.Receipt.Status, pr.GasUsed, len(pr.Receipt.Logs))
			for _, l := range pr.Receipt.Logs {
				s += fmt.Sprintf(" %s/%x/%x", l.Address.Hex(), l.Topics, l.Data)
			}
			return s
		}
	}
	return ""
}

func TestC18(t *testing.T) { runProp(t, "C18", genC18, runC18) }

package props

import (
	"bytes"
	"encoding/hex"
	"fmt"
	"math/big"
	"strings"
	"testing"

	sdkmath "cosmossdk.io/math"
	sdk "github.com/cosmos/cosmos-sdk/types"
	authtypes "github.com/cosmos/cosmos-sdk/x/auth/types"
	vestexported "github.com/cosmos/cosmos-sdk/x/auth/vesting/exported"
	vestingtypes "github.com/cosmos/cosmos-sdk/x/auth/vesting/types"
	"github.com/cosmos/cosmos-sdk/x/authz"
	banktypes "github.com/cosmos/cosmos-sdk/x/bank/types"
	"github.com/ethereum/go-ethereum/common"
	"github.com/ethereum/go-ethereum/crypto"
	"pgregory.net/rapid"

	vauthtypes "github.com/EscanBE/evermint/v12/x/vauth/types"

	"verif/harness/chain"
)

// C16 — Vesting accounts only for proven EOAs; ownership proofs unforgeable and final.

type c16Step struct {
	Kind      string `json:"kind"`      // proof | vest | vestperiodic | vestperm
	Submitter int    `json:"submitter"` // key index of the tx signer
	Target    int    `json:"target"`    // extra-key index of the account to prove / to create
	Sig       string `json:"sig"`       // valid | otherkey | othermsg | truncated | extended | uppercase | v27 | random | malleated | no0x
	Nest      int    `json:"nest"`      // exec nesting depth for vesting messages (0 = top level)
	// Layout places harmless siblings around a nested vesting message (only with Nest > 0):
	// "" single chain | cleanfirst-top: [exec[send], chain] | cleanfirst-inner: exec[exec[send], chain-1] | sendfirst-inner: exec[send, chain-1]
	Layout string `json:"layout,omitempty"`
	// Spell: spelling of the account field of a proof message: "" canonical lower-case bech32 | upper (the all-upper-case
	// spelling bech32 also accepts: same address bytes, another string)
	Spell string `json:"spell,omitempty"`
	// Acct replaces the account of a proof message by an address nobody holds a key for: zero20 (twenty zero bytes) |
	// zero32 (a 32-byte address ending in twenty zero bytes); "" = the target key's own address
	Acct string `json:"acct,omitempty"`
	// Batch: recipients of a "vestbatch" step - one top-level tx carrying several vesting-creation messages
	Batch []c16Rcpt `json:"batch,omitempty"`
}

type c16Rcpt struct {
	Target int    `json:"target"`
	Long   bool   `json:"long,omitempty"` // the 32-byte address that ends in the target's 20 bytes (another account altogether)
	Kind   string `json:"kind"`           // vest | vestperiodic | vestperm
}

func (r c16Rcpt) acc() sdk.AccAddress {
	if r.Long {
		return sdk.AccAddress(append(bytes.Repeat([]byte{0xee}, 12), chain.ExtraKey(r.Target).Addr.Bytes()...))
	}
	return chain.ExtraKey(r.Target).Acc()
}

// c16ProofAccount is the account a proof step names.
func c16ProofAccount(st c16Step) sdk.AccAddress {
	switch st.Acct {
	case "zero20":
		return sdk.AccAddress(make([]byte, 20))
	case "zero32":
		return sdk.AccAddress(append(bytes.Repeat([]byte{0x11}, 12), make([]byte, 20)...))
	}
	return chain.ExtraKey(st.Target).Acc()
}

type c16Case struct {
	Steps []c16Step `json:"steps"`
}

const (
	c16Targets = 3
	c16FeeStr  = "1000000000000000000"
	c16TxFee   = "400000000000000" // 400000 gas x 1 gwei
)

var secp256k1N, _ = new(big.Int).SetString("fffffffffffffffffffffffffffffffebaaedce6af48a03bbfd25e8cd0364141", 16)

func c16World() chain.World {
	w := chain.World{GenesisTime: 1700000000, NumVals: 1, BaseFee: "1000000000", MinGasPrice: "0", MaxGas: 40000000, NoInflation: true, Erc20Native: true}
	fee, _ := new(big.Int).SetString(c16FeeStr, 10)
	txFee, _ := new(big.Int).SetString(c16TxFee, 10)
	for i := 0; i < 6; i++ {
		bal := "1000000000000000000000"
		switch i {
		case 4: // cannot afford the proof fee
			bal = new(big.Int).Add(new(big.Int).Rsh(fee, 1), new(big.Int).Mul(txFee, big.NewInt(50))).String()
		case 5: // exactly one proof fee + one tx fee
			bal = new(big.Int).Add(fee, txFee).String()
		}
		w.Accounts = append(w.Accounts, chain.GenAccount{Key: i, Coins: map[string]string{chain.Denom: bal}})
	}
	return w
}

func genC16(t *rapid.T) c16Case {
	cs := c16Case{}
	sigs := []string{"valid", "valid", "valid", "otherkey", "othermsg", "truncated", "extended", "uppercase", "v27", "random", "malleated", "no0x", "r0", "highr", "v4", "zeros"}
	for n := rapid.IntRange(2, 10).Draw(t, "nsteps"); n > 0; n-- {
		s := c16Step{Submitter: rapid.IntRange(0, 5).Draw(t, "submitter"), Target: rapid.IntRange(0, c16Targets-1).Draw(t, "target")}
		if rapid.IntRange(0, 7).Draw(t, "isfund") == 0 {
			// coins reach the vauth module account (through the ERC-20 precompile, which skips the bank block list):
			// later submissions must still burn exactly the fee
			s.Kind = "fund"
			if s.Submitter > 3 {
				s.Submitter = 1
			}
			cs.Steps = append(cs.Steps, s)
			continue
		}
		if rapid.IntRange(0, 7).Draw(t, "isbatch") == 0 {
			// several vesting-creation messages in one top-level tx, to targets and to 32-byte addresses that end in a
			// target's bytes: each recipient needs its own stored proof
			s.Kind = "vestbatch"
			if s.Submitter > 3 {
				s.Submitter = 0
			}
			for n := rapid.IntRange(2, 3).Draw(t, "nbatch"); n > 0; n-- {
				r := c16Rcpt{Target: rapid.IntRange(0, c16Targets-1).Draw(t, "btarget"), Long: rapid.IntRange(0, 2).Draw(t, "blong") == 0,
					Kind: rapid.SampledFrom([]string{"vest", "vestperiodic", "vestperm"}).Draw(t, "bkind")}
				if len(s.Batch) > 0 && rapid.Bool().Draw(t, "balias") {
					r.Target, r.Long = s.Batch[0].Target, !s.Batch[0].Long
				}
				s.Batch = append(s.Batch, r)
			}
			cs.Steps = append(cs.Steps, s)
			continue
		}
		if rapid.IntRange(0, 2).Draw(t, "isvest") == 2 {
			s.Kind = rapid.SampledFrom([]string{"vest", "vestperiodic", "vestperm"}).Draw(t, "vkind")
			s.Nest = rapid.SampledFrom([]int{0, 0, 0, 1, 2, 3}).Draw(t, "nest")
			if s.Nest > 0 {
				s.Layout = rapid.SampledFrom([]string{"", "cleanfirst-top", "cleanfirst-inner", "sendfirst-inner"}).Draw(t, "layout")
			}
			if s.Submitter > 3 {
				s.Submitter = 0
			}
		} else {
			s.Kind = "proof"
			s.Sig = rapid.SampledFrom(sigs).Draw(t, "sig")
			if rapid.IntRange(0, 3).Draw(t, "spell") == 0 {
				s.Spell = "upper"
			}
			if rapid.IntRange(0, 5).Draw(t, "nokeyaccount") == 0 {
				// an address nobody can sign for, typically with a signature nothing can be recovered from
				s.Acct = rapid.SampledFrom([]string{"zero20", "zero32"}).Draw(t, "acct")
				s.Sig = rapid.SampledFrom([]string{"r0", "highr", "v4", "zeros", "valid", "random"}).Draw(t, "nokeysig")
			}
		}
		cs.Steps = append(cs.Steps, s)
	}
	return cs
}

func c16Signature(target chain.Key, kind string) string {
	hash := crypto.Keccak256([]byte(vauthtypes.MessageToSign))
	sig, err := crypto.Sign(hash, target.ECDSA)
	if err != nil {
		panic(err)
	}
	switch kind {
	case "otherkey":
		sig, _ = crypto.Sign(hash, chain.ExtraKey(99).ECDSA)
	case "othermsg":
		sig, _ = crypto.Sign(crypto.Keccak256([]byte(vauthtypes.MessageToSign+" ")), target.ECDSA)
	case "truncated":
		sig = sig[:64]
	case "extended":
		sig = append(sig, 0)
	case "v27":
		sig = append([]byte{}, sig...)
		sig[64] += 27
	case "random":
		sig = crypto.Keccak256(append(hash, target.Addr.Bytes()...))
		sig = append(sig, append(crypto.Keccak256(sig), 0)...)
	case "r0": // 65 bytes, but no public key can be recovered from it
		sig = append(append(make([]byte, 32), leftPad32([]byte{1})...), 0)
	case "highr":
		sig = append(append(leftPad32(secp256k1N.Bytes()), leftPad32([]byte{1})...), 0)
	case "v4":
		sig = append([]byte{}, sig...)
		sig[64] = 4
	case "zeros":
		sig = make([]byte, 65)
	case "malleated":
		s := new(big.Int).SetBytes(sig[32:64])
		s.Sub(secp256k1N, s)
		m := append([]byte{}, sig[:32]...)
		m = append(m, leftPad32(s.Bytes())...)
		m = append(m, sig[64]^1)
		sig = m
	}
	h := hex.EncodeToString(sig)
	switch kind {
	case "uppercase":
		return "0x" + strings.ToUpper(h)
	case "no0x":
		return h
	}
	return "0x" + h
}

func leftPad32(b []byte) []byte {
	if len(b) >= 32 {
		return b
	}
	return append(make([]byte, 32-len(b)), b...)
}

type c16Snap struct {
	Vauth   []chain.KV
	Supply  *big.Int
	Bal     [6]*big.Int
	Vesting [c16Targets]bool
	Exists  [c16Targets]bool
}

func runC16(cs c16Case) *Outcome {
	o := &Outcome{}
	c, err := chain.NewStarted(c16World(), chain.NodeOpts{})
	if err != nil {
		o.dev("", "fixed world rejected: %v", err)
		return o
	}
	defer c.Close()
	snap := func(ctx sdk.Context) interface{} {
		s := &c16Snap{Vauth: c.Dump(ctx)["vauth"], Supply: c.App.BankKeeper.GetSupply(ctx, chain.Denom).Amount.BigInt()}
		for i := 0; i < 6; i++ {
			s.Bal[i] = c.App.BankKeeper.GetBalance(ctx, chain.K(i).Acc(), chain.Denom).Amount.BigInt()
		}
		for i := 0; i < c16Targets; i++ {
			acc := c.App.AccountKeeper.GetAccount(ctx, chain.ExtraKey(i).Acc())
			s.Exists[i] = acc != nil
			_, s.Vesting[i] = acc.(vestexported.VestingAccount)
		}
		return s
	}
	fee, _ := new(big.Int).SetString(c16FeeStr, 10)
	txFee, _ := new(big.Int).SetString(c16TxFee, 10)
	nAccepted, nRejected, routes := 0, 0, map[string]bool{}
	for si, st := range cs.Steps {
		ctx := c.CommittedCtx()
		if c.Height == 0 {
			ctx = c.PendingCtx()
		}
		accNum, seq, ok := c.AccountInfo(ctx, chain.K(st.Submitter).Acc())
		if !ok {
			continue
		}
		if st.Kind == "fund" {
			vauthMod := common.BytesToAddress(authtypes.NewModuleAddress(vauthtypes.ModuleName))
			bz, _, err := chain.EthTx{From: st.Submitter, Type: 0, Nonce: seq, Gas: 300000, GasPrice: "2000000000", To: erc20NativeAddr().Hex(),
				Data: packErc20("transfer", vauthMod, big.NewInt(300000000000000000))}.Build(c.TxCfg)
			if err == nil {
				if _, err := c.RunBlock(chain.Block{Dt: 3, Txs: [][]byte{bz}}); err != nil {
					o.dev("", "step %d: funding block failed: %v", si, err)
					return o
				}
				if c.App.BankKeeper.GetBalance(c.CommittedCtx(), vauthMod.Bytes(), chain.Denom).IsPositive() {
					o.label("vauth-module-account-funded")
				}
			}
			continue
		}
		target := chain.ExtraKey(st.Target)
		var msg sdk.Msg
		coins := sdk.NewCoins(sdk.NewCoin(chain.Denom, sdkmath.NewInt(1000)))
		switch st.Kind {
		case "proof":
			account := c16ProofAccount(st).String()
			if st.Spell == "upper" {
				account = strings.ToUpper(account)
			}
			msg = &vauthtypes.MsgSubmitProofExternalOwnedAccount{Submitter: chain.K(st.Submitter).Acc().String(), Account: account, Signature: c16Signature(target, st.Sig)}
		case "vest":
			msg = vestingtypes.NewMsgCreateVestingAccount(chain.K(st.Submitter).Acc(), target.Acc(), coins, 1800000000, rapidBoolFromIndex(si))
		case "vestperiodic":
			msg = vestingtypes.NewMsgCreatePeriodicVestingAccount(chain.K(st.Submitter).Acc(), target.Acc(), 1700000000, []vestingtypes.Period{{Length: 100000, Amount: coins}})
		case "vestperm":
			msg = vestingtypes.NewMsgCreatePermanentLockedAccount(chain.K(st.Submitter).Acc(), target.Acc(), coins)
		}
		subAcc := chain.K(st.Submitter).Acc()
		wrap := func(inner ...sdk.Msg) sdk.Msg {
			ex := authz.NewMsgExec(subAcc, inner)
			return &ex
		}
		harmless := func() sdk.Msg {
			return banktypes.NewMsgSend(subAcc, chain.K(0).Acc(), sdk.NewCoins(sdk.NewCoin(chain.Denom, sdkmath.NewInt(1))))
		}
		msgs := []sdk.Msg{msg}
		if st.Kind == "vestbatch" {
			msgs = nil
			for _, r := range st.Batch {
				switch r.Kind {
				case "vestperiodic":
					msgs = append(msgs, vestingtypes.NewMsgCreatePeriodicVestingAccount(chain.K(st.Submitter).Acc(), r.acc(), 1700000000, []vestingtypes.Period{{Length: 100000, Amount: coins}}))
				case "vestperm":
					msgs = append(msgs, vestingtypes.NewMsgCreatePermanentLockedAccount(chain.K(st.Submitter).Acc(), r.acc(), coins))
				default:
					msgs = append(msgs, vestingtypes.NewMsgCreateVestingAccount(chain.K(st.Submitter).Acc(), r.acc(), coins, 1800000000, false))
				}
			}
		}
		if st.Nest > 0 {
			depth := st.Nest
			if st.Layout == "cleanfirst-inner" || st.Layout == "sendfirst-inner" {
				depth--
			}
			for d := 0; d < depth; d++ {
				msg = wrap(msg)
			}
			switch st.Layout {
			case "cleanfirst-top":
				msgs = []sdk.Msg{wrap(harmless()), msg}
			case "cleanfirst-inner":
				msgs = []sdk.Msg{wrap(wrap(harmless()), msg)}
			case "sendfirst-inner":
				msgs = []sdk.Msg{wrap(harmless(), msg)}
			default:
				msgs = []sdk.Msg{msg}
			}
		}
		bz, err := chain.CosmosTx{Signer: st.Submitter, Msgs: msgs, Gas: 400000, FeeAmount: c16TxFee}.Build(c.TxCfg, c.World.CID(), accNum, seq)
		if err != nil {
			o.label("unbuildable")
			continue
		}
		before := snap(ctx).(*c16Snap)
		rec := execBlock(c, blockRecord{}, 3, 0, [][]byte{bz}, snap)
		if rec.Err != nil {
			o.dev("", "step %d: block failed: %v", si, rec.Err)
			return o
		}
		tr := rec.Txs[0]
		if tr.Pre == nil {
			// rejected before the ante handler (message-level ValidateBasic): nothing may have changed; observed through End only
			o.label("rejected-before-ante:" + st.Kind + ":" + st.Sig)
			nRejected++
			if end, ok := rec.End.(*c16Snap); ok {
				if !kvEqual(before.Vauth, end.Vauth) || before.Supply.Cmp(end.Supply) != 0 || before.Bal[st.Submitter].Cmp(end.Bal[st.Submitter]) != 0 {
					o.dev("", "step %d (%+v): a tx rejected before admission changed proofs, supply or the submitter's balance", si, st)
				}
			}
			if tr.Res.Code == 0 {
				o.dev("", "step %d (%+v): tx never reached the ante handler but has result code 0", si, st)
			}
			continue
		}
		pre, post := tr.Pre.(*c16Snap), rec.End.(*c16Snap)
		succeeded := tr.Res.Code == 0
		proofAcc := target.Acc()
		if st.Kind == "proof" {
			proofAcc = c16ProofAccount(st)
		}
		hadProof := c16HasProofAcc(pre.Vauth, proofAcc)
		switch st.Kind {
		case "proof":
			paid := new(big.Int).Sub(pre.Bal[st.Submitter], post.Bal[st.Submitter])
			burnt := new(big.Int).Sub(pre.Supply, post.Supply)
			if succeeded {
				nAccepted++
				o.label("proof-accepted:" + st.Sig)
				if st.Spell != "" {
					o.label("proof-accepted:spelling-" + st.Spell)
				}
				if hadProof {
					o.dev("", "step %d (%+v): a second proof was accepted for an already proven account", si, st)
				}
				want := new(big.Int).Add(fee, txFee)
				if paid.Cmp(want) != 0 {
					o.dev("", "step %d (%+v): submitter paid %s, expected proof fee + tx fee = %s", si, st, paid, want)
				}
				if burnt.Cmp(fee) != 0 {
					o.dev("", "step %d (%+v): supply shrank by %s, expected exactly the fixed fee %s", si, st, burnt, fee)
				}
				if st.Acct != "" {
					o.dev("", "step %d (%+v): a proof was accepted for %s, an address nobody holds the key of", si, st, proofAcc)
				}
				if !c16HasProofAcc(post.Vauth, proofAcc) {
					o.dev("", "step %d (%+v): accepted submission stored no proof", si, st)
				}
				if st.Sig != "valid" && st.Sig != "malleated" {
					o.dev("", "step %d (%+v): a %s signature was accepted as proof", si, st, st.Sig)
				}
			} else {
				nRejected++
				o.label("proof-rejected:" + st.Sig)
				if !kvEqual(pre.Vauth, post.Vauth) {
					o.dev("", "step %d (%+v): rejected submission changed the proof store", si, st)
				}
				if burnt.Sign() != 0 {
					o.dev("", "step %d (%+v): rejected submission burnt %s", si, st, burnt)
				}
				if tr.admitted() {
					if paid.Cmp(txFee) != 0 {
						o.dev("", "step %d (%+v): rejected submission cost the submitter %s, expected only the tx fee %s", si, st, paid, txFee)
					}
				} else if paid.Sign() != 0 {
					o.dev("", "step %d (%+v): submission rejected at admission cost the submitter %s", si, st, paid)
				}
			}
			// proofs of other / already proven accounts stay byte-identical
			for _, kv := range pre.Vauth {
				found := false
				for _, kv2 := range post.Vauth {
					if bytes.Equal(kv.K, kv2.K) {
						found = true
						if !bytes.Equal(kv.V, kv2.V) {
							o.dev("", "step %d (%+v): stored proof %x was overwritten", si, st, kv.K)
						}
					}
				}
				if !found {
					o.dev("", "step %d (%+v): stored proof %x disappeared", si, st, kv.K)
				}
			}
		case "vestbatch":
			routes["batch"] = true
			if succeeded {
				o.label("vesting-batch-accepted")
				for i, r := range st.Batch {
					if !c16HasProofAcc(pre.Vauth, r.acc()) {
						o.dev("", "step %d (%+v): message %d of an accepted batch created a vesting account for %s, an address without a stored ownership proof", si, st, i, r.acc())
					}
				}
			} else {
				o.label("vesting-batch-refused")
				for _, r := range st.Batch {
					if acc := c.App.AccountKeeper.GetAccount(c.CommittedCtx(), r.acc()); acc != nil {
						if _, isV := acc.(vestexported.VestingAccount); isV && !c16HasProofAcc(pre.Vauth, r.acc()) {
							o.dev("", "step %d (%+v): a refused batch left a vesting account at %s, which has no stored proof", si, st, r.acc())
						}
					}
				}
			}
			if !kvEqual(pre.Vauth, post.Vauth) {
				o.dev("", "step %d (%+v): a vesting batch changed the proof store", si, st)
			}
		default:
			route := "top"
			if st.Nest > 0 {
				route = "nested"
			}
			routes[route] = true
			becameVesting := !pre.Vesting[st.Target] && post.Vesting[st.Target]
			if becameVesting {
				o.label("vesting-created:" + route)
				if !hadProof {
					o.dev("", "step %d (%+v): a vesting account was created for an address without a stored ownership proof", si, st)
				}
				if st.Nest > 0 {
					o.dev("", "step %d (%+v): a vesting account was created through an exec-nested message", si, st)
				}
			} else {
				o.label("vesting-refused:" + route)
			}
			if !kvEqual(pre.Vauth, post.Vauth) {
				o.dev("", "step %d (%+v): a vesting message changed the proof store", si, st)
			}
		}
		// every stored proof verifies harness-side
		for _, kv := range post.Vauth {
			var proof vauthtypes.ProofExternalOwnedAccount
			if err := proof.Unmarshal(kv.V); err != nil {
				continue // not a proof record (params etc.)
			}
			if proof.Account == "" {
				continue
			}
			acc, err := sdk.AccAddressFromBech32(proof.Account)
			if err != nil {
				o.dev("", "stored proof has a bad account %q", proof.Account)
				continue
			}
			sig, err := hex.DecodeString(strings.TrimPrefix(proof.Signature, "0x"))
			if err != nil || len(sig) != 65 {
				o.dev("", "stored proof for %s has an undecodable signature %q", proof.Account, proof.Signature)
				continue
			}
			pub, err := crypto.SigToPub(crypto.Keccak256([]byte(vauthtypes.MessageToSign)), sig)
			if err != nil || !bytes.Equal(crypto.PubkeyToAddress(*pub).Bytes(), acc.Bytes()) {
				o.dev("", "stored proof for %s does not recover to that address over the fixed message (%v)", proof.Account, err)
			}
		}
		for _, d := range o.Devs {
			if d.Key == "" {
				return o
			}
		}
	}
	o.NonTrivial = nAccepted >= 1 && nRejected >= 1 && len(routes) >= 1
	return o
}

func rapidBoolFromIndex(i int) bool { return i%2 == 0 }

func c16HasProof(kvs []chain.KV, target chain.Key) bool { return c16HasProofAcc(kvs, target.Acc()) }

func c16HasProofAcc(kvs []chain.KV, acc sdk.AccAddress) bool {
	key := vauthtypes.KeyProofExternalOwnedAccountByAddress(acc)
	for _, kv := range kvs {
		if bytes.Equal(kv.K, key) {
			return true
		}
	}
	return false
}

func kvEqual(a, b []chain.KV) bool {
	if len(a) != len(b) {
		return false
	}
	for i := range a {
		if !bytes.Equal(a[i].K, b[i].K) || !bytes.Equal(a[i].V, b[i].V) {
			return false
		}
	}
	return true
}

var _ = fmt.Sprintf

func TestC16(t *testing.T) { runProp(t, "C16", genC16, runC16) }

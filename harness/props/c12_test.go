package props

import (
	"encoding/hex"
	"fmt"
	"math/big"
	"reflect"
	"strings"
	"testing"

	sdk "github.com/cosmos/cosmos-sdk/types"
	"github.com/ethereum/go-ethereum/accounts/abi"
	"github.com/ethereum/go-ethereum/common"
	"pgregory.net/rapid"

	cpcabi "github.com/EscanBE/evermint/v12/x/cpc/abi"

	"verif/harness/chain"
	"verif/harness/evmgen"
	"verif/harness/stats"
)

// C12 — Read-only EVM contexts cannot change state through custom precompiles.

type c12Case struct {
	Ops     []string `json:"ops"`    // call opcodes from the top contract down; the last one targets the precompile
	Cpc     string   `json:"cpc"`    // erc20 | staking | bech32
	Method  string   `json:"method"` // ABI method name
	Data    string   `json:"data"`   // packed call data (hex)
	NumVals int      `json:"num_vals"`
	Static  bool     `json:"static"` // false: control case without any STATICCALL edge (read-only methods must still not write)
}

func c12Addr(i int) string { return poolAddr(0x40 + i) }

// c12GhostOwner owns ERC-20 allowance records but has no account any more: the state a contract leaves behind when it
// approves a spender and later self-destructs.
var c12GhostOwner = common.HexToAddress("0x6b05700000000000000000000000000000000001")

func cpcInfo(name string) (cpcabi.CustomPrecompiledContractInfo, common.Address) {
	switch name {
	case "erc20":
		return cpcabi.Erc20CpcInfo, erc20NativeAddr()
	case "staking":
		return cpcabi.StakingCpcInfo, stakingCpcAddr()
	}
	return cpcabi.Bech32CpcInfo, bech32CpcAddr()
}

// genAbiValue generates a Go value for an ABI type, biased towards values that make calls succeed.
func genAbiValue(t *rapid.T, typ abi.Type, label string, nv int) interface{} {
	switch typ.T {
	case abi.AddressTy:
		switch rapid.IntRange(0, 5).Draw(t, label+"k") {
		case 0:
			return chain.ValOperKey(rapid.IntRange(0, nv-1).Draw(t, label+"val")).Addr
		case 1:
			return chain.K(rapid.IntRange(0, 3).Draw(t, label+"eoa")).Addr
		case 2:
			return common.HexToAddress(c12Addr(rapid.IntRange(0, 3).Draw(t, label+"c")))
		case 3:
			return common.Address{}
		case 4:
			return c12GhostOwner
		default:
			return chain.ValOperKey(0).Addr
		}
	case abi.UintTy, abi.IntTy:
		var v *big.Int
		switch rapid.IntRange(0, 5).Draw(t, label+"k") {
		case 0:
			v = new(big.Int)
		case 1:
			v = big.NewInt(1)
		case 2:
			v = new(big.Int).Sub(new(big.Int).Lsh(big.NewInt(1), 256), big.NewInt(1))
		default:
			v = new(big.Int).SetUint64(rapid.Uint64Range(1, 1000000000).Draw(t, label+"v"))
		}
		if typ.Size <= 64 {
			rv := reflect.New(typ.GetType()).Elem()
			if typ.T == abi.UintTy {
				rv.SetUint(v.Uint64() & ((1 << uint(typ.Size)) - 1))
			} else {
				rv.SetInt(int64(v.Uint64() & 0x7f))
			}
			return rv.Interface()
		}
		return v
	case abi.BoolTy:
		return rapid.Bool().Draw(t, label)
	case abi.StringTy:
		return rapid.SampledFrom([]string{"", "evm", "evmvaloper", "evm1qqqqqqqqqqqqqqqqqqqqqqqqqqqqqqqqqjq7c8", "x", strings.Repeat("a", 90)}).Draw(t, label)
	case abi.BytesTy:
		return rapid.SliceOfN(rapid.Byte(), 0, 40).Draw(t, label)
	case abi.FixedBytesTy:
		rv := reflect.New(typ.GetType()).Elem()
		bz := rapid.SliceOfN(rapid.Byte(), typ.Size, typ.Size).Draw(t, label)
		for i := 0; i < typ.Size; i++ {
			rv.Index(i).SetUint(uint64(bz[i]))
		}
		return rv.Interface()
	case abi.TupleTy:
		rv := reflect.New(typ.GetType()).Elem()
		for i, et := range typ.TupleElems {
			rv.Field(i).Set(reflect.ValueOf(genAbiValue(t, *et, fmt.Sprintf("%s.%d", label, i), nv)))
		}
		return rv.Interface()
	case abi.SliceTy, abi.ArrayTy:
		n := typ.Size
		if typ.T == abi.SliceTy {
			n = rapid.IntRange(0, 2).Draw(t, label+"n")
		}
		rv := reflect.MakeSlice(reflect.SliceOf(typ.Elem.GetType()), n, n)
		for i := 0; i < n; i++ {
			rv.Index(i).Set(reflect.ValueOf(genAbiValue(t, *typ.Elem, fmt.Sprintf("%s[%d]", label, i), nv)))
		}
		if typ.T == abi.ArrayTy {
			arr := reflect.New(typ.GetType()).Elem()
			reflect.Copy(arr, rv)
			return arr.Interface()
		}
		return rv.Interface()
	}
	panic(fmt.Sprintf("unsupported abi type %s", typ.String()))
}

func sortedMethods(a abi.ABI) []string {
	var names []string
	for n := range a.Methods {
		names = append(names, n)
	}
	for i := range names {
		for j := i + 1; j < len(names); j++ {
			if names[j] < names[i] {
				names[i], names[j] = names[j], names[i]
			}
		}
	}
	return names
}

func genCpcCall(t *rapid.T, nv int) (cpc, method, data string) {
	cpc = rapid.SampledFrom([]string{"erc20", "erc20", "staking", "staking", "bech32"}).Draw(t, "cpc")
	info, _ := cpcInfo(cpc)
	method = rapid.SampledFrom(sortedMethods(info.ABI)).Draw(t, "method")
	m := info.ABI.Methods[method]
	var args []interface{}
	for i, in := range m.Inputs {
		args = append(args, genAbiValue(t, in.Type, fmt.Sprintf("arg%d", i), nv))
	}
	bz, err := info.ABI.Pack(method, args...)
	if err != nil {
		panic(fmt.Sprintf("pack %s.%s: %v", cpc, method, err))
	}
	return cpc, method, hex.EncodeToString(bz)
}

func genC12(t *rapid.T) c12Case {
	cs := c12Case{NumVals: rapid.IntRange(1, 3).Draw(t, "nvals"), Static: rapid.IntRange(0, 5).Draw(t, "static") != 0}
	ops := []string{"call", "delegatecall", "callcode", "staticcall"}
	n := rapid.IntRange(1, 4).Draw(t, "depth")
	for i := 0; i < n; i++ {
		cs.Ops = append(cs.Ops, rapid.SampledFrom(ops).Draw(t, "op"))
	}
	if cs.Static {
		has := false
		for _, o := range cs.Ops {
			has = has || o == "staticcall"
		}
		if !has {
			cs.Ops[rapid.IntRange(0, n-1).Draw(t, "staticpos")] = "staticcall"
		}
	} else {
		for i := range cs.Ops {
			if cs.Ops[i] == "staticcall" {
				cs.Ops[i] = "call"
			}
		}
	}
	cs.Cpc, cs.Method, cs.Data = genCpcCall(t, cs.NumVals)
	return cs
}

func c12World(cs c12Case) chain.World {
	nv := cs.NumVals
	w := chain.World{GenesisTime: 1700000000, NumVals: nv, BaseFee: "0", MinGasPrice: "0", MaxGas: -1, Erc20Native: true, StakingCpc: true}
	for i := 0; i < 4; i++ {
		w.Accounts = append(w.Accounts, chain.GenAccount{Key: i, Coins: map[string]string{chain.Denom: eoaFunds}})
	}
	_, target := cpcInfo(cs.Cpc)
	for i, op := range cs.Ops {
		var inner evmgen.Stmt
		if i == len(cs.Ops)-1 {
			inner = evmgen.Stmt{Op: op, A: target.Hex(), B: "0", N: 3000000, Data: cs.Data}
		} else {
			inner = evmgen.Stmt{Op: op, A: c12Addr(i + 1), B: "0", Data: "01"}
		}
		// setup mode (call data 09): the contract delegates in its own right so that undelegate/redelegate/withdraw could succeed
		setup := evmgen.Stmt{Op: "call", A: stakingCpcAddr().Hex(), B: "0", N: 1500000, Data: packStaking("delegate", chain.ValOperKey(0).Addr, big.NewInt(1000000000))}
		p := evmgen.Program{{Op: "ifcd", N: 9, Sub: []evmgen.Stmt{setup}}, {Op: "ifcd", N: 1, Sub: []evmgen.Stmt{inner}}}
		w.Contracts = append(w.Contracts, chain.GenContract{Addr: c12Addr(i), Code: evmgen.CompileHex(p), Nonce: 1, Balance: "1000000000000000000"})
	}
	return w
}

func runC12(cs c12Case) *Outcome {
	o := &Outcome{}
	c, err := chain.NewStarted(c12World(cs), chain.NodeOpts{})
	if err != nil {
		o.dev("", "world rejected: %v", err)
		return o
	}
	defer c.Close()
	// setup block: allowances from key 1 to every contract, own delegations for every contract
	var setup []TxPlan
	max := new(big.Int).Lsh(big.NewInt(1), 200)
	for i := range cs.Ops {
		setup = append(setup, TxPlan{Kind: "eth", From: 1, Type: 0, Gas: 200000, CapOver: 1, To: erc20NativeAddr().Hex(), Value: "0", Data: packErc20("approve", common.HexToAddress(c12Addr(i)), max)})
		setup = append(setup, TxPlan{Kind: "eth", From: 2, Type: 0, Gas: 3000000, CapOver: 1, To: c12Addr(i), Value: "0", Data: "09"})
	}
	sr := runBlockPlans(c, []BlockPlan{{Dt: 5, Txs: setup}, {Dt: 5}}, nil)
	for _, r := range sr {
		if r.Err != nil {
			o.dev("", "setup block failed: %v", r.Err)
			return o
		}
	}
	// allowance records whose owner has no account (left behind by an owner that self-destructed), for every spender
	// the argument generator can name
	c.SetObserver(func(ob chain.Obs) {
		if ob.Kind != "end" {
			return
		}
		spenders := []common.Address{chain.ValOperKey(0).Addr}
		for i := 0; i < 4; i++ {
			spenders = append(spenders, chain.K(i).Addr, common.HexToAddress(c12Addr(i)))
		}
		for i, sp := range spenders {
			c.App.CPCKeeper.SetErc20CpcAllowance(ob.Ctx, c12GhostOwner, sp, big.NewInt(int64(100+i)))
		}
	})
	_, gerr := c.RunBlock(chain.Block{Dt: 5})
	c.SetObserver(nil)
	if gerr != nil {
		o.dev("", "setup block failed: %v", gerr)
		return o
	}
	snap := func(ctx sdk.Context) interface{} { return takeView(c, ctx) }
	recs := runBlockPlans(c, []BlockPlan{{Dt: 5, Txs: []TxPlan{{Kind: "eth", From: 0, Type: 0, Gas: 30000000, CapOver: 1, To: c12Addr(0), Value: "0", Data: "01"}}}}, snap)
	if recs[0].Err != nil {
		o.dev("", "block failed: %v", recs[0].Err)
		return o
	}
	tr := recs[0].Txs[0]
	if tr.Pre == nil {
		o.dev("", "tx not observed: %v", tr.Res)
		return o
	}
	pre, post := tr.Pre.(view), recs[0].End.(view)
	if tr.Receipt == nil {
		// the tx failed as a whole (e.g. a panic inside the precompile recovered by runTx): nothing but nonce+fee may remain
		for _, k := range diffView(pre, post) {
			if !feeOnlyKey(k, chain.K(0).Acc()) {
				o.dev("", "tx failed as a whole (code %d) but %s changed", tr.Res.Code, k)
			}
		}
		o.label("tx-failed-as-a-whole")
		return o
	}
	info, _ := cpcInfo(cs.Cpc)
	m := info.ABI.Methods[cs.Method]
	readOnlyMethod := m.IsConstant()
	sender := chain.K(0).Acc()
	// which storage keys belong to the chain of contracts themselves (their own result sinks)
	own := map[string]bool{}
	for i := range cs.Ops {
		own["raw/evm/"+fmt.Sprintf("%x", append(append([]byte{0x02}, common.HexToAddress(c12Addr(i)).Bytes()...), common.BigToHash(big.NewInt(9)).Bytes()...))] = true
	}
	var changed []string
	for _, k := range diffView(pre, post) {
		if feeOnlyKey(k, sender) || own[k] {
			continue
		}
		changed = append(changed, k)
	}
	nLogs := len(tr.Receipt.Receipt.Logs)
	lastOp := cs.Ops[len(cs.Ops)-1]
	staticAbove := false
	for _, op := range cs.Ops[:len(cs.Ops)-1] {
		staticAbove = staticAbove || op == "staticcall"
	}
	o.label("method:" + cs.Cpc + "." + cs.Method)
	if cs.Static {
		if len(changed) > 0 || nLogs > 0 {
			key := ""
			// known finding D3: the fork passes readOnly=false to custom precompiles reached through
			// CALL / CALLCODE / DELEGATECALL even when an ancestor frame is static
			if lastOp != "staticcall" && staticAbove && !readOnlyMethod {
				key = "D3-static-call-cpc-write"
			}
			what := fmt.Sprintf("%d logs", nLogs)
			if len(changed) > 0 {
				what = changed[0]
			}
			o.dev(key, "read-only context (ops %v) changed state through %s.%s: %s", cs.Ops, cs.Cpc, cs.Method, what)
		}
		if !readOnlyMethod && (staticAbove || lastOp == "staticcall") {
			dist := 0
			for i := len(cs.Ops) - 1; i >= 0; i-- {
				if cs.Ops[i] == "staticcall" {
					dist = len(cs.Ops) - i
					break
				}
			}
			if dist >= 2 {
				o.NonTrivial = true
			}
			o.label("static-over-writer")
		}
	} else {
		if readOnlyMethod {
			if len(changed) > 0 || nLogs > 0 {
				o.dev("", "method %s.%s is declared read-only but changed %v (logs %d)", cs.Cpc, cs.Method, changed, nLogs)
			}
			o.label("view-in-normal-context")
			o.NonTrivial = true
		} else if len(changed) > 0 {
			o.label("control:writer-wrote")
		} else {
			o.label("control:writer-no-effect")
		}
	}
	return o
}

func TestC12(t *testing.T) { runProp(t, "C12", genC12, runC12) }

// TestC12Gas enumerates every registered method executor of every deployed custom precompile:
// state-changing methods charge a non-zero gas cost, and the ABI's mutability agrees with the declaration.
func TestC12Gas(t *testing.T) {
	w := chain.World{GenesisTime: 1700000000, NumVals: 1, BaseFee: "0", MinGasPrice: "0", MaxGas: -1, Erc20Native: true, StakingCpc: true,
		Accounts: []chain.GenAccount{{Key: 0, Coins: map[string]string{chain.Denom: eoaFunds}}}}
	c, err := chain.NewStarted(w, chain.NodeOpts{})
	if err != nil {
		t.Fatal(err)
	}
	defer c.Close()
	ctx := c.PendingCtx()
	n := 0
	for _, contract := range c.App.CPCKeeper.GetAllCustomPrecompiledContracts(ctx) {
		meta := contract.GetMetadata()
		var info cpcabi.CustomPrecompiledContractInfo
		switch meta.CustomPrecompiledType {
		case 1:
			info = cpcabi.Erc20CpcInfo
		case 2:
			info = cpcabi.StakingCpcInfo
		default:
			info = cpcabi.Bech32CpcInfo
		}
		for _, ex := range contract.GetMethodExecutors() {
			n++
			stats.Eval()
			sig := ex.Method4BytesSignatures()
			var name string
			var found *abi.Method
			for mn, m := range info.ABI.Methods {
				if string(m.ID) == string(sig) {
					mm := m
					found, name = &mm, mn
				}
			}
			id := fmt.Sprintf("%s/%x/%s", meta.Name, sig, name)
			stats.NonTrivialCase(stats.Hash([]byte(id)))
			stats.Sample("method", map[string]interface{}{"contract": meta.Name, "selector": hex.EncodeToString(sig), "method": name, "read_only": ex.ReadOnly(), "gas": ex.RequireGas()}, 60)
			if !ex.ReadOnly() && ex.RequireGas() == 0 {
				t.Errorf("VIOLATION C12: state-changing method %s charges no gas", id)
			}
			if found != nil && found.IsConstant() != ex.ReadOnly() {
				t.Errorf("VIOLATION C12: method %s: ABI says constant=%v but executor declares read-only=%v", id, found.IsConstant(), ex.ReadOnly())
			}
		}
	}
	stats.Extra("executors_enumerated", int64(n))
	if n < 20 {
		t.Errorf("only %d executors enumerated", n)
	}
}

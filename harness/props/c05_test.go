package props

import (
	"math/big"
	"strings"
	"testing"

	sdk "github.com/cosmos/cosmos-sdk/types"
	"github.com/ethereum/go-ethereum/common"
	"github.com/ethereum/go-ethereum/core"
	ethtypes "github.com/ethereum/go-ethereum/core/types"
	"pgregory.net/rapid"

	"verif/harness/chain"
	"verif/harness/gethref"
)

// C05 — Senders are charged exactly gas used x effective price, in every outcome.

type c05Case struct {
	World  chain.World `json:"world"`
	Blocks []BlockPlan `json:"blocks"`
}

type c05Snap struct {
	Digest [32]byte
	Bal    [nEOA]*big.Int
	State  gethref.State
}

func genC05(t *rapid.T) c05Case {
	cfg := worldCfg{OnlyEvmCoin: true, PoolEOAFrom: 2, Senders: 2}
	w := genEvmWorld(t, cfg)
	if rapid.IntRange(0, 5).Draw(t, "smallblock") == 5 {
		w.MaxGas = rapid.Int64Range(100000, 2000000).Draw(t, "maxgas")
	}
	// a contract dedicated to heavy storage clearing (refund cap)
	nb := rapid.IntRange(1, 2).Draw(t, "nblocks")
	var blocks []BlockPlan
	for b := 0; b < nb; b++ {
		bp := BlockPlan{Dt: rapid.Int64Range(0, 20).Draw(t, "dt"), Proposer: rapid.IntRange(0, 2).Draw(t, "proposer")}
		for n := rapid.IntRange(1, 5).Draw(t, "ntx"); n > 0; n-- {
			bp.Txs = append(bp.Txs, genEthPlan(t, w, cfg, true))
		}
		blocks = append(blocks, bp)
	}
	return c05Case{World: w, Blocks: blocks}
}

func runC05(cs c05Case) *Outcome {
	o := &Outcome{}
	c, err := chain.NewStarted(cs.World, chain.NodeOpts{})
	if err != nil {
		o.Excluded = "world rejected: " + err.Error()
		return o
	}
	defer c.Close()
	snap := func(ctx sdk.Context) interface{} {
		s := &c05Snap{Digest: c.Dump(ctx).Digest(), State: extractEvmState(c, ctx)}
		for i := 0; i < nEOA; i++ {
			s.Bal[i] = c.App.BankKeeper.GetBalance(ctx, chain.K(i).Acc(), chain.Denom).Amount.BigInt()
		}
		return s
	}
	recs := runBlockPlans(c, cs.Blocks, snap)
	signer := ethtypes.LatestSignerForChainID(big.NewInt(chain.EIP155ID))
	chainCfg := c.App.EvmKeeper.GetChainConfig(c.CommittedCtx())
	nv := cs.World.NumVals
	if nv < 1 {
		nv = 1
	}
	for bi, br := range recs {
		if br.Err != nil {
			o.dev("", "block %d failed: %v", bi, br.Err)
			return o
		}
		var running uint64
		for ti, tr := range br.Txs {
			tx := tr.Built.Eth
			if tx == nil {
				continue
			}
			if tr.Pre == nil || tr.Post == nil {
				o.label("not-reached")
				continue
			}
			pre, post := tr.Pre.(*c05Snap), tr.Post.(*c05Snap)
			from := tr.Built.Plan.From
			price := effectivePrice(tx, br.BaseFee)
			if !tr.admitted() {
				o.label("rejected")
				if pre.Digest != post.Digest {
					o.dev("", "b%d t%d: tx rejected at admission (%v) changed state", bi, ti, tr.AnteErr)
				}
				if tr.Res.Code == 0 {
					o.dev("", "b%d t%d: ante handler failed but result code is 0", bi, ti)
				}
				continue
			}
			executed := tr.Receipt != nil && tr.Res.Code == 0
			var gasUsed uint64
			value := new(big.Int)
			outcome := ""
			switch {
			case executed && !tr.Receipt.HasVMError:
				gasUsed, outcome = tr.Receipt.GasUsed, "success"
				value = tx.Value()
			case executed:
				gasUsed, outcome = tr.Receipt.GasUsed, "vmerror"
			default:
				gasUsed, outcome = tx.Gas(), "failed-outside-evm"
				if tr.Receipt != nil {
					o.dev("", "b%d t%d: failed tx (code %d) carries a receipt event", bi, ti, tr.Res.Code)
				}
			}
			o.label(outcome)
			want := new(big.Int).Mul(new(big.Int).SetUint64(gasUsed), price)
			want.Add(want, value)
			got := new(big.Int).Sub(pre.Bal[from], post.Bal[from])
			if got.Cmp(want) != 0 {
				o.dev("", "b%d t%d (%s): sender paid %s, expected gasUsed %d x price %s + value %s = %s", bi, ti, outcome, got, gasUsed, price, value, want)
			}
			running += gasUsed
			if executed {
				// bounds
				intrinsic, ierr := core.IntrinsicGas(tx.Data(), tx.AccessList(), tx.To() == nil, true, true)
				if ierr == nil && gasUsed < intrinsic && !tr.Receipt.HasVMError {
					// listed finding D23: the storage refund (at most 1/5 of the gas consumed, which is >= intrinsic) is
					// subtracted after execution, so the reported figure can end up in [4/5 intrinsic, intrinsic) exactly as
					// in go-ethereum; anything lower cannot be explained by the refund
					key := ""
					if gasUsed*5 >= intrinsic*4 {
						key = "D23-gas-used-below-intrinsic-after-refund"
					}
					o.dev(key, "b%d t%d: gas used %d below intrinsic gas %d", bi, ti, gasUsed, intrinsic)
				}
				if gasUsed > tx.Gas() {
					o.dev("", "b%d t%d: gas used %d above gas limit %d", bi, ti, gasUsed, tx.Gas())
				}
				if uint64(tr.Res.GasUsed) != tr.Receipt.GasUsed {
					o.dev("", "b%d t%d: consensus result gas used %d != receipt gas used %d", bi, ti, tr.Res.GasUsed, tr.Receipt.GasUsed)
				}
				if uint64(tr.Res.GasWanted) != tx.Gas() {
					o.dev("", "b%d t%d: gas wanted %d != gas limit %d", bi, ti, tr.Res.GasWanted, tx.Gas())
				}
				if tr.Receipt.EffPrice == nil || tr.Receipt.EffPrice.Cmp(price) != 0 {
					o.dev("", "b%d t%d: receipt effective price %v != %s", bi, ti, tr.Receipt.EffPrice, price)
				}
				if tr.Receipt.Receipt.CumulativeGasUsed != running {
					o.dev("", "b%d t%d: cumulative gas %d != running sum %d", bi, ti, tr.Receipt.Receipt.CumulativeGasUsed, running)
				}
				// refund cap: gas after refund >= 4/5 of the gas consumed before the refund (reference run gives the latter)
				msg, merr := tx.AsMessage(signer, br.BaseFee)
				if merr == nil {
					coinbase := chain.ValOperKey(br.Plan.Proposer % nv).Addr
					bc := gethref.BlockCtx{Coinbase: coinbase, GasLimit: blockGasLimitOf(cs.World), Number: br.Height, Time: br.Time, BaseFee: br.BaseFee, Hashes: c.Hashes}
					var warm []common.Address
					if chainCfg.Rules(big.NewInt(br.Height), false).IsShanghai {
						warm = append(warm, coinbase)
					}
					ref := gethref.Apply(pre.State, bc, chainCfg, nil, msg, warm)
					if ref.Err == nil {
						applied := ref.Refund
						before := ref.GasUsed // after refund
						// reconstruct: before = used + min(R, before/5)
						// try both branches
						gb := ref.GasUsed + applied
						if applied > gb/5 {
							// capped: used = gb - gb/5 -> search gb
							gb = ref.GasUsed * 5 / 4
							for gb-gb/5 < ref.GasUsed {
								gb++
							}
						}
						_ = before
						if gasUsed < gb-gb/5 {
							o.dev("", "b%d t%d: gas used %d is below 4/5 of the %d gas consumed before the refund", bi, ti, gasUsed, gb)
						}
						if ref.Refund > 0 {
							o.label("refund")
							if applied > (ref.GasUsed+applied)/5 {
								o.label("refund-capped")
							}
						}
					}
				}
			} else {
				switch {
				case uint64(tr.Res.GasUsed) == tx.Gas():
					o.label("failed:gas-used-is-the-limit")
				case tr.Res.Codespace == "sdk" && tr.Res.Code == 11 && strings.Contains(tr.Res.Log, "block gas meter"):
					// the tx did not fit into what was left of the block: it is dropped before execution and the consensus
					// result reports the SDK meter; the charge (checked above) is what matters
					o.label("failed:dropped-by-block-gas-meter")
				default:
					o.dev("", "b%d t%d: tx failed outside EVM execution (%s/%d %s) with gas used %d, not its gas limit %d", bi, ti, tr.Res.Codespace, tr.Res.Code, truncS(tr.Res.Log, 80), tr.Res.GasUsed, tx.Gas())
				}
			}
			if outcome != "success" || (tx.Type() == 2 && new(big.Int).Add(tx.GasTipCap(), br.BaseFee).Cmp(tx.GasFeeCap()) != 0) {
				o.NonTrivial = true
			}
		}
	}
	return o
}

func TestC05(t *testing.T) { runProp(t, "C05", genC05, runC05) }

package props

import (
	"fmt"
	"math"
	"math/big"
	"strings"
	"sync"
	"testing"

	sdkmath "cosmossdk.io/math"
	storetypes "cosmossdk.io/store/types"
	abci "github.com/cometbft/cometbft/abci/types"
	cmtproto "github.com/cometbft/cometbft/proto/tendermint/types"
	sdk "github.com/cosmos/cosmos-sdk/types"
	authtypes "github.com/cosmos/cosmos-sdk/x/auth/types"
	govtypes "github.com/cosmos/cosmos-sdk/x/gov/types"
	govv1 "github.com/cosmos/cosmos-sdk/x/gov/types/v1"
	stakingtypes "github.com/cosmos/cosmos-sdk/x/staking/types"
	"pgregory.net/rapid"

	feemarkettypes "github.com/EscanBE/evermint/v12/x/feemarket/types"

	"verif/harness/chain"
)

// C09 — Base fee follows EIP-1559 and bounds every executed transaction's price.

// nextBaseFeeOracle is written from the property text. ok=false: gas target is zero (formula undefined).
func nextBaseFeeOracle(b *big.Int, used uint64, maxGas int64, minGasPriceInt *big.Int) (next *big.Int, ok bool) {
	var limit uint64
	if maxGas > -1 {
		limit = uint64(maxGas)
	} else {
		limit = math.MaxUint64
	}
	target := limit / 2
	if target == 0 {
		return nil, false
	}
	t := new(big.Int).SetUint64(target)
	u := new(big.Int).SetUint64(used)
	next = new(big.Int).Set(b)
	switch u.Cmp(t) {
	case 0:
	case 1:
		d := new(big.Int).Sub(u, t)
		d.Mul(d, b).Div(d, t).Div(d, big.NewInt(8))
		if d.Sign() == 0 {
			d.SetInt64(1)
		}
		next.Add(next, d)
	case -1:
		d := new(big.Int).Sub(t, u)
		d.Mul(d, b).Div(d, t).Div(d, big.NewInt(8))
		next.Sub(next, d)
		if next.Sign() < 0 {
			next.SetInt64(0)
		}
	}
	if next.Cmp(minGasPriceInt) < 0 {
		next = new(big.Int).Set(minGasPriceInt)
	}
	return next, true
}

type c09FuncCase struct {
	BaseFee string `json:"base_fee"`
	Used    uint64 `json:"used"`
	MaxGas  int64  `json:"max_gas"`
	MinGas  string `json:"min_gas_price"` // decimal
}

func genBig256(t *rapid.T, label string) *big.Int {
	switch rapid.IntRange(0, 9).Draw(t, label+"k") {
	case 0:
		return new(big.Int)
	case 1:
		return big.NewInt(int64(rapid.IntRange(1, 20).Draw(t, label+"tiny")))
	case 2:
		return new(big.Int).Sub(new(big.Int).Lsh(big.NewInt(1), 256), big.NewInt(1))
	case 3:
		return new(big.Int).Lsh(big.NewInt(1), uint(rapid.IntRange(0, 255).Draw(t, label+"pow")))
	default:
		bits := rapid.IntRange(1, 256).Draw(t, label+"bits")
		bz := rapid.SliceOfN(rapid.Byte(), (bits+7)/8, (bits+7)/8).Draw(t, label+"bytes")
		v := new(big.Int).SetBytes(bz)
		if v.BitLen() > bits {
			v.Rsh(v, uint(v.BitLen()-bits))
		}
		return v
	}
}

func genC09Func(t *rapid.T) c09FuncCase {
	cs := c09FuncCase{BaseFee: genBig256(t, "b").String()}
	switch rapid.IntRange(0, 9).Draw(t, "maxgask") {
	case 0:
		cs.MaxGas = -1
	case 1:
		cs.MaxGas = int64(rapid.IntRange(0, 3).Draw(t, "maxgastiny"))
	case 2:
		cs.MaxGas = math.MaxInt64
	case 3:
		cs.MaxGas = rapid.Int64Range(4, 1000).Draw(t, "maxgassmall")
	default:
		cs.MaxGas = rapid.Int64Range(1000, 100000000).Draw(t, "maxgas")
	}
	var limit uint64 = math.MaxUint64
	if cs.MaxGas > -1 {
		limit = uint64(cs.MaxGas)
	}
	target := limit / 2
	switch rapid.IntRange(0, 7).Draw(t, "usedk") {
	case 0:
		cs.Used = 0
	case 1:
		cs.Used = target
	case 2:
		if target > 0 {
			cs.Used = target - 1
		}
	case 3:
		cs.Used = target + 1
	case 4:
		cs.Used = limit
	default:
		if cs.MaxGas > 0 {
			cs.Used = rapid.Uint64Range(0, limit).Draw(t, "used")
		} else {
			cs.Used = rapid.Uint64Range(0, 200000000).Draw(t, "usedu")
		}
	}
	switch rapid.IntRange(0, 4).Draw(t, "mink") {
	case 0, 1:
		cs.MinGas = "0"
	case 2:
		cs.MinGas = fmt.Sprintf("%d.%03d", rapid.IntRange(0, 100).Draw(t, "mini"), rapid.IntRange(0, 999).Draw(t, "minf"))
	case 3:
		cs.MinGas = genBig256(t, "min").String()
		if len(cs.MinGas) > 60 {
			cs.MinGas = cs.MinGas[:60]
		}
	case 4:
		cs.MinGas = cs.BaseFee
		if len(cs.MinGas) > 60 {
			cs.MinGas = cs.MinGas[:60]
		}
	}
	return cs
}

var (
	c09Once  sync.Once
	c09Chain *chain.Chain
)

func c09Shared() *chain.Chain {
	c09Once.Do(func() {
		w := chain.World{GenesisTime: 1700000000, NumVals: 1, BaseFee: "1000000000", MinGasPrice: "0", MaxGas: 40000000,
			Accounts: []chain.GenAccount{{Key: 0, Coins: map[string]string{chain.Denom: eoaFunds}}}}
		c, err := chain.NewStarted(w, chain.NodeOpts{})
		if err != nil {
			panic(err)
		}
		if _, err := c.RunBlock(chain.Block{Dt: 1}); err != nil {
			panic(err)
		}
		c09Chain = c
	})
	return c09Chain
}

func runC09Func(cs c09FuncCase) *Outcome {
	o := &Outcome{}
	c := c09Shared()
	b, _ := new(big.Int).SetString(cs.BaseFee, 10)
	minDec, err := sdkmath.LegacyNewDecFromStr(cs.MinGas)
	if err != nil {
		o.Excluded = "min gas price not a decimal"
		return o
	}
	minInt := minDec.TruncateInt().BigInt()
	want, defined := nextBaseFeeOracle(b, cs.Used, cs.MaxGas, minInt)
	if defined && want.BitLen() > 256 {
		o.Excluded = "correct result exceeds 256 bits"
		return o
	}
	ctx, _ := c.CommittedCtx().CacheContext()
	params := feemarkettypes.Params{BaseFee: sdkmath.NewIntFromBigInt(b), MinGasPrice: minDec}
	if err := params.Validate(); err != nil {
		o.Excluded = "params rejected by validation"
		return o
	}
	if err := c.App.FeeMarketKeeper.SetParams(ctx, params); err != nil {
		o.Excluded = "params rejected by keeper"
		return o
	}
	var meter storetypes.GasMeter
	if cs.MaxGas > 0 {
		meter = storetypes.NewGasMeter(uint64(cs.MaxGas))
	} else {
		meter = storetypes.NewInfiniteGasMeter()
	}
	func() {
		defer func() { _ = recover() }() // consuming past the limit panics but records the consumption, as in baseapp
		meter.ConsumeGas(cs.Used, "block")
	}()
	cp := c.World.ConsensusParams()
	cp.Block = &cmtproto.BlockParams{MaxBytes: 2000000, MaxGas: cs.MaxGas}
	ctx = ctx.WithConsensusParams(*cp).WithBlockGasMeter(meter).WithBlockHeight(5)

	var got sdkmath.Int
	var pan interface{}
	func() {
		defer func() { pan = recover() }()
		got = c.App.FeeMarketKeeper.CalculateBaseFee(ctx)
	}()
	used := meter.GasConsumedToLimit()
	want, defined = nextBaseFeeOracle(b, used, cs.MaxGas, minInt)
	if pan != nil {
		key := ""
		if !defined && used > 0 {
			key = "D4-basefee-zero-target"
		}
		o.dev(key, "computing the next base fee panicked: %v (base fee %s, used %d, max gas %d)", pan, b, used, cs.MaxGas)
		return o
	}
	switch {
	case !defined:
		o.label("degenerate-target")
		o.NonTrivial = true
		if got.IsNegative() || got.BigInt().Cmp(minInt) < 0 {
			o.dev("", "next base fee %s is negative or below the minimum %s", got, minInt)
		}
	case got.BigInt().Cmp(want) != 0:
		o.dev("", "next base fee %s, expected %s (base fee %s, used %d, max gas %d, min %s)", got, want, b, used, cs.MaxGas, cs.MinGas)
	default:
		var limit uint64 = math.MaxUint64
		if cs.MaxGas > -1 {
			limit = uint64(cs.MaxGas)
		}
		if used != limit/2 && want.Cmp(b) != 0 {
			o.NonTrivial = true
			o.label("moved")
		}
		if want.Cmp(minInt) == 0 && minInt.Sign() > 0 {
			o.NonTrivial = true
			o.label("clamped-to-min")
		}
		if used > limit/2 && new(big.Int).Sub(want, b).Cmp(big.NewInt(1)) == 0 {
			o.NonTrivial = true
			o.label("min-increment")
		}
	}
	return o
}

func TestC09Func(t *testing.T) { runProp(t, "C09", genC09Func, runC09Func) }

// ----------------------------------------------------------------------------
// history level

type c09HistCase struct {
	World  chain.World `json:"world"`
	Blocks []BlockPlan `json:"blocks"`
	// RealGov, when set, sends the fee-market parameter update through the real governance flow instead of emulating its
	// enactment: before block At, key 0 bonds a large stake, submits the proposal and votes; it is enacted by the gov end
	// blocker of whichever later block closes the (2 s) voting period - the fee-market end blocker of that same block must
	// then work from the enacted parameters
	RealGov *c09RealGov `json:"real_gov,omitempty"`
}

type c09RealGov struct {
	At          int    `json:"at"`
	BaseFee     string `json:"base_fee"`
	MinGasPrice string `json:"min_gas_price"`
}

func genC09Hist(t *rapid.T) c09HistCase {
	cfg := worldCfg{}
	w := genEvmWorld(t, cfg)
	switch rapid.IntRange(0, 5).Draw(t, "maxgask") {
	case 0:
		w.MaxGas = -1
	case 1:
		w.MaxGas = rapid.Int64Range(0, 3).Draw(t, "maxgastiny")
	case 2, 3:
		w.MaxGas = rapid.Int64Range(100000, 3000000).Draw(t, "maxgassmall")
	default:
		w.MaxGas = 40000000
	}
	cs := c09HistCase{World: w}
	for b, nb := 0, rapid.IntRange(1, 5).Draw(t, "nblocks"); b < nb; b++ {
		bp := BlockPlan{Dt: rapid.Int64Range(1, 10).Draw(t, "dt"), Proposer: rapid.IntRange(0, 2).Draw(t, "proposer")}
		for n := rapid.IntRange(0, 6).Draw(t, "ntx"); n > 0; n-- {
			if rapid.IntRange(0, 5).Draw(t, "bank") == 5 {
				p := genBankPlan(t)
				p.CapOver = rapid.Int64Range(-5, 100).Draw(t, "bankcap")
				if rapid.Bool().Draw(t, "bankdyn") {
					// Cosmos tx with the dynamic-fee extension: effective price = min(tip + base fee, fee / gas)
					p.Type = 2
					p.Tip = rapid.SampledFrom([]uint64{0, 0, 1, 5, 1000, 2000000000}).Draw(t, "banktip")
					p.CapOver = rapid.SampledFrom([]int64{0, 1, 100, 3000000000}).Draw(t, "bankcapdyn")
				}
				bp.Txs = append(bp.Txs, p)
			} else {
				p := genEthPlan(t, w, cfg, true)
				if rapid.IntRange(0, 3).Draw(t, "below") == 3 {
					p.CapOver = -rapid.Int64Range(1, 5).Draw(t, "capbelow")
				}
				bp.Txs = append(bp.Txs, p)
			}
		}
		if rapid.IntRange(0, 3).Draw(t, "gov") == 0 {
			// a passed governance proposal replaces the fee-market parameters in this block
			bp.GovFee = &GovFeePlan{BaseFee: rapid.SampledFrom([]string{"0", "1", "7", "1000", "1000000000", "7000000000", "1000000000000"}).Draw(t, "govbasefee"),
				MinGasPrice: rapid.SampledFrom([]string{"0", "0.5", "1000", "2000", "2000000000", "999999999.5", "3000000000"}).Draw(t, "govmin")}
		}
		cs.Blocks = append(cs.Blocks, bp)
	}
	if rapid.IntRange(0, 3).Draw(t, "realgov") == 0 {
		cs.World.GovFast = true
		cs.RealGov = &c09RealGov{At: rapid.IntRange(0, len(cs.Blocks)-1).Draw(t, "govat"),
			BaseFee:     rapid.SampledFrom([]string{"0", "7", "1000", "1000000000", "7000000000"}).Draw(t, "realbasefee"),
			MinGasPrice: rapid.SampledFrom([]string{"0", "0.5", "2000", "2000000000", "3000000000.5"}).Draw(t, "realmin")}
		for i := range cs.Blocks {
			cs.Blocks[i].GovFee = nil // one source of parameter changes per history
		}
	}
	return cs
}

type c09End struct {
	Consumed uint64
	BaseFee  *big.Int
	MinInt   *big.Int
}

func runC09Hist(cs c09HistCase) *Outcome {
	o := &Outcome{}
	c, err := chain.NewStarted(cs.World, chain.NodeOpts{})
	if err != nil {
		o.Excluded = "world rejected: " + err.Error()
		return o
	}
	defer c.Close()
	snap := func(ctx sdk.Context) interface{} {
		p := c.App.FeeMarketKeeper.GetParams(ctx)
		e := &c09End{BaseFee: p.BaseFee.BigInt(), MinInt: p.MinGasPrice.TruncateInt().BigInt()}
		if m := ctx.BlockGasMeter(); m != nil {
			e.Consumed = m.GasConsumedToLimit()
		}
		return e
	}
	queue := append([]BlockPlan{}, cs.Blocks...)
	var enacted *feemarkettypes.Params // parameters of the real proposal, once we know them
	if cs.RealGov != nil {
		bf, _ := sdkmath.NewIntFromString(cs.RealGov.BaseFee)
		mp, _ := sdkmath.LegacyNewDecFromStr(cs.RealGov.MinGasPrice)
		enacted = &feemarkettypes.Params{BaseFee: bf, MinGasPrice: mp}
		if enacted.Validate() != nil {
			enacted = nil
		}
		// room for the voting period to close
		queue = append(queue, BlockPlan{Dt: 2}, BlockPlan{Dt: 2}, BlockPlan{Dt: 1})
	}
	for bi := 0; bi < len(queue); bi++ {
		bp := queue[bi]
		if cs.RealGov != nil && enacted != nil && bi == cs.RealGov.At && bp.Dt >= 0 {
			// two blocks of governance txs by key 0, built against the state of the moment
			for step := 0; step < 2; step++ {
				ctx := c.CommittedCtx()
				accNum, seq, _ := c.AccountInfo(ctx, chain.K(0).Acc())
				floor := newPlanBuilder(c).floor
				fee := new(big.Int).Mul(new(big.Int).Add(floor, big.NewInt(1)), big.NewInt(900000))
				var msgs []sdk.Msg
				if step == 0 {
					stake, _ := sdkmath.NewIntFromString("100000000000000000000000")
					prop, perr := govv1.NewMsgSubmitProposal([]sdk.Msg{&feemarkettypes.MsgUpdateParams{Authority: authtypes.NewModuleAddress(govtypes.ModuleName).String(), Params: *enacted}},
						sdk.NewCoins(sdk.NewCoin(chain.Denom, sdkmath.NewInt(10))), chain.K(0).Acc().String(), "", "fee market", "new fee market parameters", false)
					if perr != nil {
						o.Excluded = "cannot build the proposal: " + perr.Error()
						return o
					}
					msgs = []sdk.Msg{&stakingtypes.MsgDelegate{DelegatorAddress: chain.K(0).Acc().String(), ValidatorAddress: chain.ValOperKey(0).Val().String(), Amount: sdk.NewCoin(chain.Denom, stake)}, prop}
				} else {
					msgs = []sdk.Msg{govv1.NewMsgVote(chain.K(0).Acc(), 1, govv1.OptionYes, "")}
				}
				bz, berr := chain.CosmosTx{Signer: 0, Msgs: msgs, Gas: 900000, FeeAmount: fee.String()}.Build(c.TxCfg, c.World.CID(), accNum, seq)
				if berr != nil {
					o.Excluded = "cannot build the governance tx: " + berr.Error()
					return o
				}
				gres, gerr := c.RunBlock(chain.Block{Dt: 0, Txs: [][]byte{bz}})
				if gerr != nil || len(gres.TxResults) != 1 || gres.TxResults[0].Code != 0 {
					o.Excluded = "the governance set-up tx was not accepted"
					if gerr == nil && len(gres.TxResults) == 1 {
						if strings.Contains(gres.TxResults[0].Log, "exceeds block max gas") {
							o.Excluded = "the governance set-up tx does not fit into this world's block gas limit"
						} else {
							o.Excluded += ": " + truncS(gres.TxResults[0].Log, 120)
						}
					}
					return o
				}
			}
			o.label("hist:real-proposal-submitted")
		}
		recs := runBlockPlans(c, []BlockPlan{bp}, snap)
		br := recs[0]
		if br.Err != nil {
			key := ""
			if cs.World.MaxGas >= 0 && cs.World.MaxGas/2 == 0 && containsAny(br.Err.Error(), "division by zero") {
				key = "D4-basefee-zero-target"
			}
			o.dev(key, "block %d failed: %v (max gas %d)", bi, br.Err, cs.World.MaxGas)
			return o
		}
		end := br.End.(*c09End)
		if enacted != nil && c09ProposalPassed(br.Res.Events) {
			// the gov end blocker enacted the proposal in this block, after the observation point: the fee-market end
			// blocker (which runs after it) works from the enacted parameters
			end = &c09End{Consumed: end.Consumed, BaseFee: enacted.BaseFee.BigInt(), MinInt: enacted.MinGasPrice.TruncateInt().BigInt()}
			o.label("hist:real-proposal-enacted")
			o.NonTrivial = true
		}
		want, defined := nextBaseFeeOracle(end.BaseFee, end.Consumed, cs.World.MaxGas, end.MinInt)
		evs := findEvents(br.Res.Events, "fee_market")
		if len(evs) != 1 {
			o.dev("", "block %d: %d fee_market events", bi, len(evs))
		} else {
			v, _ := attr(evs[0], "base_fee")
			stored := c.App.FeeMarketKeeper.GetParams(c.CommittedCtx()).BaseFee.String()
			if v != stored {
				o.dev("", "block %d: fee_market event %s != stored base fee %s", bi, v, stored)
			}
			if defined && v != want.String() {
				o.dev("", "block %d: next base fee %s, expected %s (base fee %s, consumed %d, max gas %d, min %s)", bi, v, want, end.BaseFee, end.Consumed, cs.World.MaxGas, end.MinInt)
			}
			if defined && want.Cmp(end.BaseFee) != 0 {
				o.NonTrivial = true
				o.label("hist:moved")
			}
			if !defined {
				o.NonTrivial = true
				o.label("hist:degenerate-target")
			}
		}
		if bp.GovFee != nil {
			if br.GovErr == nil {
				o.label("hist:gov-params-enacted")
			} else {
				o.label("hist:gov-params-refused")
			}
		}
		// no admitted tx below the floor (the parameters the block's txs were admitted under: before a governance update)
		adm := br.End.(*c09End) // (not the enacted parameters of a real proposal: those take effect after the block's txs)
		if br.PreGov != nil {
			adm = br.PreGov.(*c09End)
		}
		floor := new(big.Int).Set(adm.BaseFee)
		if adm.MinInt.Cmp(floor) > 0 {
			floor = adm.MinInt
		}
		for ti, tr := range br.Txs {
			if !tr.admitted() {
				continue
			}
			var price *big.Int
			switch {
			case tr.Built.Eth != nil:
				price = effectivePrice(tr.Built.Eth, br.BaseFee)
			case tr.Built.Plan.Kind == "bank":
				price = new(big.Int).Add(floorAtBuild(br, tr), big.NewInt(tr.Built.Plan.CapOver))
				if price.Sign() < 0 {
					price = new(big.Int)
				}
				if tr.Built.Plan.Type == 2 {
					if eff := new(big.Int).Add(new(big.Int).SetUint64(tr.Built.Plan.Tip), br.BaseFee); eff.Cmp(price) < 0 {
						price = eff
					}
					o.label("hist:cosmos-dynamic-fee-admitted")
				}
			default:
				continue
			}
			if price.Cmp(floor) < 0 {
				o.dev("", "block %d tx %d: admitted with effective price %s below the floor %s (base fee %s, min %s)", bi, ti, price, floor, adm.BaseFee, adm.MinInt)
			} else if price.Cmp(floor) == 0 {
				o.label("hist:admitted-at-floor")
			}
		}
	}
	return o
}

// floorAtBuild recomputes the floor the plan builder used for this block.
func floorAtBuild(br blockRecord, _ txRecord) *big.Int {
	return br.Floor
}

func TestC09Hist(t *testing.T) { runProp(t, "C09", genC09Hist, runC09Hist) }

// c09ProposalPassed reports whether the gov end blocker of this block executed a passed proposal.
func c09ProposalPassed(evs []abci.Event) bool {
	for _, e := range evs {
		if e.Type != "active_proposal" {
			continue
		}
		for _, a := range e.Attributes {
			if a.Key == "proposal_result" && a.Value == "proposal_passed" {
				return true
			}
		}
	}
	return false
}

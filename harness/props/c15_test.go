package props

import (
	"fmt"
	"sort"
	"strconv"
	"strings"
	"testing"
	"time"

	sdk "github.com/cosmos/cosmos-sdk/types"
	authtypes "github.com/cosmos/cosmos-sdk/x/auth/types"
	vestexported "github.com/cosmos/cosmos-sdk/x/auth/vesting/exported"
	vestingtypes "github.com/cosmos/cosmos-sdk/x/auth/vesting/types"
	distrtypes "github.com/cosmos/cosmos-sdk/x/distribution/types"
	govtypes "github.com/cosmos/cosmos-sdk/x/gov/types"
	stakingtypes "github.com/cosmos/cosmos-sdk/x/staking/types"
	"github.com/ethereum/go-ethereum/common"
	"github.com/ethereum/go-ethereum/crypto"
	"pgregory.net/rapid"

	evmtypes "github.com/EscanBE/evermint/v12/x/evm/types"

	"verif/harness/chain"
	"verif/harness/evmgen"
)

// C15 — EVM execution cannot destroy protected accounts or spend vesting-locked coins.

type c15Case struct {
	World    chain.World `json:"world"`
	Blocks   []BlockPlan `json:"blocks"`
	Destruct []string    `json:"destruct"`         // contracts that are able to self-destruct (all others must never disappear)
	Targets  []string    `json:"targets"`          // routers and protected addresses: a tx sent there exercises a route
	Victim   string      `json:"victim,omitempty"` // contract whose only self-destruct route is always rolled back
}

type c15Acct struct {
	Exists     bool
	Repr       string // proto string of the account record
	Kind       string // base | module | vesting
	EndTime    int64
	Seq        uint64
	Balances   sdk.Coins
	CodeHash   string
	HasStorage bool
	Locked     sdk.Coins
}

type c15Snap map[common.Address]*c15Acct

func c15Take(c *chain.Chain, blockTime func() time.Time) func(ctx sdk.Context) interface{} {
	return func(ctx sdk.Context) interface{} {
		s := c15Snap{}
		get := func(a common.Address) *c15Acct {
			if x, ok := s[a]; ok {
				return x
			}
			x := &c15Acct{}
			s[a] = x
			return x
		}
		c.App.AccountKeeper.IterateAccounts(ctx, func(acc sdk.AccountI) bool {
			x := get(common.BytesToAddress(acc.GetAddress()))
			x.Exists, x.Repr, x.Seq, x.Kind = true, acc.String(), acc.GetSequence(), "base"
			if _, ok := acc.(sdk.ModuleAccountI); ok {
				x.Kind = "module"
			}
			if va, ok := acc.(vestexported.VestingAccount); ok {
				x.Kind = "vesting"
				x.EndTime = va.GetEndTime()
				if _, perm := acc.(*vestingtypes.PermanentLockedAccount); perm {
					x.EndTime = 1 << 62
				}
				x.Locked = va.LockedCoins(ctx.BlockTime())
			}
			return false
		})
		c.App.BankKeeper.IterateAllBalances(ctx, func(addr sdk.AccAddress, coin sdk.Coin) bool {
			x := get(common.BytesToAddress(addr))
			x.Balances = x.Balances.Add(coin)
			return false
		})
		c.App.EvmKeeper.IterateContracts(ctx, func(addr common.Address, ch common.Hash) bool {
			get(addr).CodeHash = ch.Hex()
			return false
		})
		for addr, x := range s {
			c.App.EvmKeeper.ForEachStorage(ctx, addr, func(_, _ common.Hash) bool {
				x.HasStorage = true
				return false
			})
		}
		// storage of addresses without any other record
		for _, kv := range c.Dump(ctx)["evm"] {
			if len(kv.K) == 1+20+32 && kv.K[0] == 0x02 {
				get(common.BytesToAddress(kv.K[1:21])).HasStorage = true
			}
		}
		return s
	}
}

func modAddr(name string) string {
	return common.BytesToAddress(authtypes.NewModuleAddress(name)).Hex()
}

func genC15(t *rapid.T) c15Case {
	cfg := worldCfg{NoDestruct: true, Cpc: rapid.Bool().Draw(t, "cpc")}
	w := genEvmWorld(t, cfg)
	// block time independent of the wall clock: anywhere between 2017 and 2033
	w.GenesisTime = rapid.Int64Range(1500000000, 2000000000).Draw(t, "genesis")
	var protected []string
	protected = append(protected, modAddr(authtypes.FeeCollectorName), modAddr(distrtypes.ModuleName), modAddr(stakingtypes.BondedPoolName),
		modAddr(stakingtypes.NotBondedPoolName), modAddr(govtypes.ModuleName), modAddr(evmtypes.ModuleName), modAddr("transfer"))
	// vesting accounts
	nv := rapid.IntRange(1, 3).Draw(t, "nvesting")
	for i := 0; i < nv; i++ {
		kind := rapid.SampledFrom([]string{"continuous", "delayed", "periodic", "permanent"}).Draw(t, "vkind")
		start := w.GenesisTime + rapid.Int64Range(-2000, 50).Draw(t, "vstart")
		end := w.GenesisTime + rapid.SampledFrom([]int64{-500, -1, 0, 1, 5, 6, 7, 30, 5000, 100000000}).Draw(t, "vend")
		if end <= start {
			start = end - 10
		}
		v := &chain.VestingSpec{Kind: kind, Start: start, End: end, Original: map[string]string{chain.Denom: "1000000"}}
		if rapid.Bool().Draw(t, "vtwo") {
			v.Original[chain.SecondDenom] = "500"
		}
		if kind == "periodic" {
			v.Periods = []int64{(end - start + 1) / 2, (end-start+1)/2 + 1}
		}
		addr := vestAddr(i)
		if i == 0 && rapid.Bool().Draw(t, "atcreate") {
			// pre-placed at the address key 0 will create its first/second contract at
			addr = crypto.CreateAddress(chain.K(0).Addr, uint64(rapid.IntRange(0, 1).Draw(t, "createnonce"))).Hex()
		}
		acc := chain.GenAccount{Key: -1, Addr: addr, Vesting: v}
		switch rapid.IntRange(0, 2).Draw(t, "vfund") {
		case 0:
			acc.Unfunded = true
		case 1:
			acc.Coins = map[string]string{chain.Denom: "1000000"}
		case 2:
			acc.Coins = map[string]string{chain.Denom: "3000000", chain.SecondDenom: "900", "ubar": "5"}
		}
		w.Accounts = append(w.Accounts, acc)
		protected = append(protected, addr)
	}
	// key 3 may itself be a vesting account that sends transactions
	if rapid.Bool().Draw(t, "k3vesting") {
		for i := range w.Accounts {
			if w.Accounts[i].Key == 3 && w.Accounts[i].Addr == "" {
				w.Accounts[i].Vesting = &chain.VestingSpec{Kind: rapid.SampledFrom([]string{"continuous", "delayed"}).Draw(t, "k3kind"),
					Start: w.GenesisTime - 100, End: w.GenesisTime + rapid.SampledFrom([]int64{3, 20, 100000}).Draw(t, "k3end"),
					Original: map[string]string{chain.Denom: "999999999999999999000000"}}
			}
		}
	}
	// plain multi-denomination account at a future create address of key 1
	if rapid.Bool().Draw(t, "plainatcreate") {
		addr := crypto.CreateAddress(chain.K(1).Addr, 0).Hex()
		w.Accounts = append(w.Accounts, chain.GenAccount{Key: -1, Addr: addr, Coins: map[string]string{chain.Denom: "12345", chain.SecondDenom: "77"}})
		protected = append(protected, addr)
	}
	// plain accounts that never signed anything and hold only coins of other denominations (e.g. IBC vouchers):
	// touching them must never make them disappear
	for i, n := 0, rapid.IntRange(0, 2).Draw(t, "nforeign"); i < n; i++ {
		addr := fmt.Sprintf("0xf0e1000000000000000000000000000000000%03x", i+1)
		coins := map[string]string{chain.SecondDenom: "55"}
		if rapid.Bool().Draw(t, "foreigntwo") {
			coins["ibc/27394FB092D2ECCD56123C74F36E4C1F926001CEADA9CA97EA622B25F41E5EB2"] = "9"
		}
		w.Accounts = append(w.Accounts, chain.GenAccount{Key: -1, Addr: addr, Coins: coins})
		protected = append(protected, addr)
	}
	cs := c15Case{World: w}
	// routers: contracts that reach the protected addresses through every route
	nr := rapid.IntRange(1, 3).Draw(t, "nrouters")
	var routers []string
	for i := 0; i < nr; i++ {
		var p evmgen.Program
		for n := rapid.IntRange(1, 4).Draw(t, "nroutes"); n > 0; n-- {
			target := rapid.SampledFrom(protected).Draw(t, "target")
			switch rapid.IntRange(0, 5).Draw(t, "route") {
			case 0:
				p = append(p, evmgen.Stmt{Op: "call", A: target, B: "0"}) // touch
			case 1:
				p = append(p, evmgen.Stmt{Op: "call", A: target, B: strconv.Itoa(rapid.IntRange(1, 1000).Draw(t, "pay"))}) // pay
			case 2:
				p = append(p, evmgen.Stmt{Op: rapid.SampledFrom([]string{"balance", "extcodehash", "extcodesize"}).Draw(t, "peek"), A: target})
			case 3:
				p = append(p, evmgen.Stmt{Op: "staticcall", A: target})
			case 4:
				p = append(p, evmgen.Stmt{Op: "delegatecall", A: target})
			case 5:
				init := evmgen.Program{{Op: "selfdestruct", A: target}}
				if rapid.Bool().Draw(t, "initstores") {
					// the constructor writes storage before destroying itself: deletion must still be complete
					init = append(evmgen.Program{{Op: "sstore", A: "1", B: "0x2a"}, {Op: "sstore", A: "2", B: "0x2b"}}, init...)
				}
				p = append(p, evmgen.Stmt{Op: "create", B: strconv.Itoa(rapid.IntRange(0, 5).Draw(t, "createval")), Data: evmgen.CompileHex(init)})
			}
		}
		addr := poolAddr(len(w.Contracts))
		if rapid.IntRange(0, 2).Draw(t, "selfdestructs") == 0 {
			p = append(p, evmgen.Stmt{Op: "selfdestruct", A: rapid.SampledFrom(protected).Draw(t, "ben")})
			cs.Destruct = append(cs.Destruct, strings.ToLower(addr))
		}
		c := chain.GenContract{Addr: addr, Code: evmgen.CompileHex(p), Nonce: 1, Balance: "1000000"}
		if rapid.Bool().Draw(t, "routerfoo") {
			c.Coins = map[string]string{chain.SecondDenom: "321"}
		}
		w.Contracts = append(w.Contracts, c)
		routers = append(routers, addr)
	}
	// a self-destruct that is rolled back: `victim` destroys itself only when asked to (call data 01), `middle` asks and
	// then fails, `outer` ignores that failure and touches the victim again (plain call, payment, or as the beneficiary
	// of another self-destruct). The victim never self-destructs effectively: it must keep its account, code and coins.
	if rapid.Bool().Draw(t, "rolledback") {
		// (addresses outside the pool the generated soup contracts call into: only `middle` ever sends the victim 01)
		victim, middle, outer := "0xd15c000000000000000000000000000000000001", "0xd15c000000000000000000000000000000000002", "0xd15c000000000000000000000000000000000003"
		cs.Victim = victim
		ben := rapid.SampledFrom(append([]string{zeroAddr, chain.K(2).Addr.Hex()}, protected...)).Draw(t, "victimben")
		vp := evmgen.Program{{Op: "ifcd", N: 1, Sub: []evmgen.Stmt{{Op: "selfdestruct", A: ben}}}, {Op: "stop"}}
		if rapid.Bool().Draw(t, "victimstores") {
			vp = append(evmgen.Program{{Op: "sinc", A: "3"}}, vp...)
		}
		w.Contracts = append(w.Contracts, chain.GenContract{Addr: victim, Code: evmgen.CompileHex(vp), Nonce: 1, Balance: rapid.SampledFrom([]string{"0", "1000"}).Draw(t, "victimbal")})
		mp := evmgen.Program{{Op: "call", A: victim, B: "0", Data: "01"}, {Op: rapid.SampledFrom([]string{"revert", "revert", "invalid"}).Draw(t, "middleend")}}
		w.Contracts = append(w.Contracts, chain.GenContract{Addr: middle, Code: evmgen.CompileHex(mp), Nonce: 1, Balance: "10"})
		op := evmgen.Program{{Op: "call", A: middle, B: "0", N: 300000}}
		switch rapid.IntRange(0, 2).Draw(t, "retouch") {
		case 0:
			op = append(op, evmgen.Stmt{Op: "call", A: victim, B: "0"})
		case 1:
			op = append(op, evmgen.Stmt{Op: "call", A: victim, B: "3"})
		case 2:
			op = append(op, evmgen.Stmt{Op: "create", B: "2", Data: evmgen.CompileHex(evmgen.Program{{Op: "selfdestruct", A: victim}})})
		}
		w.Contracts = append(w.Contracts, chain.GenContract{Addr: outer, Code: evmgen.CompileHex(op), Nonce: 1, Balance: "1000000"})
		routers = append(routers, outer, outer)
		protected = append(protected, victim)
	}
	cs.World = w
	cs.Targets = append(append([]string{}, routers...), protected...)
	for b, nb := 0, rapid.IntRange(1, 3).Draw(t, "nblocks"); b < nb; b++ {
		bp := BlockPlan{Dt: rapid.Int64Range(0, 10).Draw(t, "dt"), Proposer: rapid.IntRange(0, 2).Draw(t, "proposer")}
		for n := rapid.IntRange(1, 5).Draw(t, "ntx"); n > 0; n-- {
			p := genEthPlan(t, w, cfg, false)
			if p.Gas < 400000 {
				p.Gas = 400000
			}
			switch rapid.IntRange(0, 7).Draw(t, "txk") {
			case 0, 1, 2:
				p.To, p.Data, p.Value = rapid.SampledFrom(routers).Draw(t, "router"), "", "0"
			case 3:
				p.To, p.Data = rapid.SampledFrom(protected).Draw(t, "direct"), ""
				p.Value = rapid.SampledFrom([]string{"0", "1", "1000"}).Draw(t, "dval")
			case 4:
				// creation by key 0 / 1 (may land on a pre-placed account)
				p.From, p.To = rapid.IntRange(0, 1).Draw(t, "creator"), ""
				p.Data = evmgen.CompileHex(evmgen.Program{{Op: "sstore", A: "1", B: "0x5"}, {Op: "return", N: 0}})
				switch rapid.IntRange(0, 3).Draw(t, "deploykind") {
				case 0:
					p.Data = hexInit(evmgen.Compile(evmgen.Program{{Op: "sinc", A: "2"}}))
				case 1:
					// constructor stores, then self-destructs (towards a protected address, the sender or nowhere)
					ben := rapid.SampledFrom(append([]string{chain.K(p.From).Addr.Hex(), zeroAddr}, protected...)).Draw(t, "ctorben")
					p.Data = evmgen.CompileHex(evmgen.Program{{Op: "sstore", A: "1", B: "0x2a"}, {Op: "sstore", A: "2", B: "0x2b"}, {Op: "selfdestruct", A: ben}})
					p.Value = rapid.SampledFrom([]string{"0", "7"}).Draw(t, "ctorval")
				}
			case 5:
				p.From = 3 // possibly a vesting sender
				p.Value = rapid.SampledFrom([]string{"0", "1000", "500000000000000000000000"}).Draw(t, "k3val")
			}
			if cs.Victim != "" && strings.EqualFold(p.To, cs.Victim) {
				p.Data = "" // a direct call never asks the victim to self-destruct
			}
			bp.Txs = append(bp.Txs, p)
		}
		cs.Blocks = append(cs.Blocks, bp)
	}
	return cs
}

func hexInit(runtime []byte) string { return fmt.Sprintf("%x", evmgen.InitCodeFor(runtime)) }

func runC15(cs c15Case) *Outcome {
	o := &Outcome{}
	c, err := chain.NewStarted(cs.World, chain.NodeOpts{})
	if err != nil {
		o.Excluded = "world rejected: " + err.Error()
		return o
	}
	defer c.Close()
	canDestruct := map[string]bool{}
	for _, a := range cs.Destruct {
		canDestruct[a] = true
	}
	take := c15Take(c, nil)
	viewOf := func(ctx sdk.Context) interface{} { return [2]interface{}{take(ctx), takeView(c, ctx)} }
	recs := runBlockPlans(c, cs.Blocks, viewOf)
	for bi, br := range recs {
		if br.Err != nil {
			o.dev("", "block %d failed: %v", bi, br.Err)
			return o
		}
		for ti, tr := range br.Txs {
			if tr.Pre == nil || tr.Post == nil || tr.Built.Eth == nil {
				continue
			}
			pre := tr.Pre.([2]interface{})[0].(c15Snap)
			post := tr.Post.([2]interface{})[0].(c15Snap)
			preV, postV := tr.Pre.([2]interface{})[1].(view), tr.Post.([2]interface{})[1].(view)
			sender := tr.Built.Sender
			blockTime := br.Time
			addrs := make([]common.Address, 0, len(pre))
			for a := range pre {
				addrs = append(addrs, a)
			}
			sort.Slice(addrs, func(i, j int) bool { return string(addrs[i][:]) < string(addrs[j][:]) })
			reached := false
			if tr.admitted() {
				if to := tr.Built.Eth.To(); to == nil {
					reached = true
				} else {
					for _, x := range cs.Targets {
						if common.HexToAddress(x) == *to {
							reached = true
						}
					}
				}
			}
			for _, a := range addrs {
				x := pre[a]
				y := post[a]
				if y == nil {
					y = &c15Acct{}
				}
				protected := x.Kind == "module" || (x.Kind == "vesting" && x.EndTime > blockTime)
				if protected {
					if !y.Exists {
						o.dev("", "b%d t%d: protected %s account %s (end %d, block time %d) was deleted", bi, ti, x.Kind, a.Hex(), x.EndTime, blockTime)
					} else if y.Repr != x.Repr {
						if a == sender && y.Kind == x.Kind && y.Seq == x.Seq+1 {
							// the account sent this tx: only its sequence moved
						} else {
							o.dev("", "b%d t%d: protected %s account %s changed: %s -> %s", bi, ti, x.Kind, a.Hex(), x.Repr, y.Repr)
						}
					}
				}
				if y.Exists && y.Kind == "vesting" {
					// locked coins may not be spent: a balance below the lock must not have decreased
					for _, lc := range y.Locked {
						after, before := y.Balances.AmountOf(lc.Denom), x.Balances.AmountOf(lc.Denom)
						if after.LT(lc.Amount) && after.LT(before) {
							o.dev("", "b%d t%d: vesting account %s spent locked coins: %s went %s -> %s while %s is locked at block time", bi, ti, a.Hex(), lc.Denom, before, after, lc.Amount)
						}
					}
				}
				hadStuff := x.CodeHash != "" || x.HasStorage || x.Seq > 0 || !x.Balances.IsZero()
				gone := x.Exists && !y.Exists
				// a creation tx whose constructor self-destructs: the account at the created address (possibly a
				// pre-placed plain account holding coins, which CREATE legitimately takes over) did self-destruct
				ctorDestructs := tr.Built.Eth.To() == nil && a == crypto.CreateAddress(sender, tr.Built.Eth.Nonce()) &&
					strings.HasPrefix(tr.Built.Plan.Data, "602a600155602b60025573") && strings.HasSuffix(tr.Built.Plan.Data, "ff00")
				if gone {
					if hadStuff && !canDestruct[strings.ToLower(a.Hex())] && !ctorDestructs {
						o.dev("", "b%d t%d: account %s (code=%v storage=%v nonce=%d balances=%s) disappeared without self-destructing", bi, ti, a.Hex(), x.CodeHash != "", x.HasStorage, x.Seq, x.Balances)
					}
					if !y.Balances.IsZero() || y.CodeHash != "" || y.HasStorage {
						o.dev("", "b%d t%d: deleted account %s left residue: balances=%s codehash=%q storage=%v", bi, ti, a.Hex(), y.Balances, y.CodeHash, y.HasStorage)
					}
					o.label("account-deleted")
				}
				// coins of denominations the EVM does not handle: only a self-destruct (which burns everything the account
				// holds) may change them; a surviving account keeps every one of them, whatever the EVM did at its address
				if x.Exists && y.Exists && !canDestruct[strings.ToLower(a.Hex())] && !ctorDestructs {
					for _, coin := range x.Balances {
						if coin.Denom == chain.Denom || c.App.CPCKeeper.GetErc20CustomPrecompiledContractAddressByMinDenom(c.CommittedCtx(), coin.Denom) != nil {
							continue
						}
						if after := y.Balances.AmountOf(coin.Denom); !after.Equal(coin.Amount) {
							o.dev("", "b%d t%d: account %s held %s and now holds %s%s although it never self-destructed", bi, ti, a.Hex(), coin, after, coin.Denom)
						}
						o.label("foreign-denomination-holder-checked")
					}
				}
				if x.Kind != "base" && (y.Repr != x.Repr || !y.Balances.Equal(x.Balances)) {
					reached = true
				}
			}
			// addresses that hold code/storage/balance without an account record after the tx
			for a, y := range post {
				if !y.Exists && (y.CodeHash != "" || y.HasStorage) {
					o.dev("", "b%d t%d: %s has no account record but code hash %q / storage %v", bi, ti, a.Hex(), y.CodeHash, y.HasStorage)
				}
			}
			// a tx refused for protection reasons leaves nothing but nonce + fee
			if tr.admitted() && tr.Res.Code != 0 && containsAny(tr.Res.Log, "prohibited to destroy", "not suitable for destroying", "failed to send coins", "failed to mint coins") {
				for _, k := range diffView(preV, postV) {
					if !feeOnlyKey(k, sdk.AccAddress(sender.Bytes())) && !strings.HasPrefix(k, "acct/"+sdk.AccAddress(common.HexToAddress(modAddr(evmtypes.ModuleName)).Bytes()).String()) {
						o.dev("", "b%d t%d: tx refused for protection reasons still changed %s", bi, ti, k)
					}
				}
				o.label("refused-for-protection")
				reached = true
			}
			if reached {
				o.NonTrivial = true
				o.label("reached-protected")
			}
		}
	}
	return o
}

func TestC15(t *testing.T) { runProp(t, "C15", genC15, runC15) }

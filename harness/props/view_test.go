package props

import (
	"encoding/hex"
	"encoding/json"
	"sort"
	"strings"

	sdk "github.com/cosmos/cosmos-sdk/types"

	"verif/harness/chain"
)

// view is a keeper-level, human-readable picture of the whole application state:
//
//	bal/<bech32>/<denom>, supply/<denom>, acct/<bech32>, raw/<store>/<hexkey> for every other store.
type view map[string]string

var rawStoresSkipped = map[string]bool{"bank": true, "acc": true}

func takeView(c *chain.Chain, ctx sdk.Context) view {
	v := view{}
	c.App.BankKeeper.IterateAllBalances(ctx, func(addr sdk.AccAddress, coin sdk.Coin) bool {
		v["bal/"+addr.String()+"/"+coin.Denom] = coin.Amount.String()
		return false
	})
	c.App.BankKeeper.IterateTotalSupply(ctx, func(coin sdk.Coin) bool {
		v["supply/"+coin.Denom] = coin.Amount.String()
		return false
	})
	c.App.AccountKeeper.IterateAccounts(ctx, func(a sdk.AccountI) bool {
		v["acct/"+a.GetAddress().String()] = a.String()
		return false
	})
	for name, kvs := range c.Dump(ctx) {
		if rawStoresSkipped[name] {
			continue
		}
		for _, kv := range kvs {
			v["raw/"+name+"/"+hex.EncodeToString(kv.K)] = hex.EncodeToString(kv.V)
		}
	}
	return v
}

// diffView returns the sorted keys whose value differs.
func diffView(a, b view) []string {
	var out []string
	for k, x := range a {
		if y, ok := b[k]; !ok || x != y {
			out = append(out, k)
		}
	}
	for k := range b {
		if _, ok := a[k]; !ok {
			out = append(out, k)
		}
	}
	sort.Strings(out)
	return out
}

// feeOnlyKey reports whether a view key may change in a tx that leaves nothing but "nonce + fee":
// the sender's account record and balance, the fee collector's balance, and (while the refund-mint
// finding is open) the EVM-denom supply.
func feeOnlyKey(k string, sender sdk.AccAddress) bool {
	col := sdk.AccAddress(feeCollector.Bytes()).String()
	switch k {
	case "acct/" + sender.String(), "bal/" + sender.String() + "/" + chain.Denom, "bal/" + col + "/" + chain.Denom:
		return true
	case "supply/" + chain.Denom:
		_, open := knownOpen["C04/D2-refund-mint"]
		return open
	}
	return false
}

func hasPrefixAny(s string, ps ...string) bool {
	for _, p := range ps {
		if strings.HasPrefix(s, p) {
			return true
		}
	}
	return false
}

func jsonUnmarshal(s string, v interface{}) error { return json.Unmarshal([]byte(s), v) }

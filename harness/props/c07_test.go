package props

import (
	"bytes"
	"fmt"
	"math/big"
	"sync"
	"testing"
	"time"

	sdkmath "cosmossdk.io/math"
	codectypes "github.com/cosmos/cosmos-sdk/codec/types"
	sdk "github.com/cosmos/cosmos-sdk/types"
	txtypes "github.com/cosmos/cosmos-sdk/types/tx"
	vestingtypes "github.com/cosmos/cosmos-sdk/x/auth/vesting/types"
	"github.com/cosmos/cosmos-sdk/x/authz"
	banktypes "github.com/cosmos/cosmos-sdk/x/bank/types"
	ethtypes "github.com/ethereum/go-ethereum/core/types"
	"pgregory.net/rapid"

	evertypes "github.com/EscanBE/evermint/v12/types"
	evmtypes "github.com/EscanBE/evermint/v12/x/evm/types"

	"verif/harness/chain"
)

// C07 — Dual-lane isolation: Ethereum messages only ever run through the EVM lane.

const c07Keys = 8

type c07Msg struct {
	Kind     string `json:"kind"`                // eth | send | vest | vestperiodic | vestperm | exec | grant
	Depth    int    `json:"depth,omitempty"`     // exec nesting depth (>=1)
	Inner    string `json:"inner,omitempty"`     // innermost message kind of an exec
	GrantURL string `json:"grant_url,omitempty"` // generic authorisation target
	// Kids, when present, makes an exec a tree: the exec carries these messages (each may be an exec again)
	Kids []c07Msg `json:"kids,omitempty"`
}

type c07Shape struct {
	Msgs        []c07Msg `json:"msgs"`
	Ext         string   `json:"ext,omitempty"` // "", eth, dyn, unknown, eth+eth, eth+dyn
	NonCrit     bool     `json:"noncrit,omitempty"`
	NonCritKind string   `json:"noncrit_kind,omitempty"` // "" = the Ethereum option | dyn | eth+dyn | unknown
	Sig         string   `json:"sig,omitempty"`          // "", valid
	Memo        string   `json:"memo,omitempty"`
	Timeout     uint64   `json:"timeout,omitempty"`
	Payer       bool     `json:"payer,omitempty"`
	Granter     bool     `json:"granter,omitempty"`
	Fee         string   `json:"fee,omitempty"` // "", more, less, otherdenom, none, two
	Gas         string   `json:"gas,omitempty"` // "", more, less
	// proto-level surgery after building: raw signature entries without signer infos and vice versa
	RawSigs       int  `json:"raw_sigs,omitempty"`
	DropSigInfos  bool `json:"drop_sig_infos,omitempty"`
	DropSignature bool `json:"drop_signature,omitempty"`
}

type c07Case struct {
	Shapes []c07Shape `json:"shapes"`
}

var c07URLs = []string{
	"/ethermint.evm.v1.MsgEthereumTx",
	"/cosmos.vesting.v1beta1.MsgCreateVestingAccount",
	"/cosmos.vesting.v1beta1.MsgCreatePeriodicVestingAccount",
	"/cosmos.vesting.v1beta1.MsgCreatePermanentLockedAccount",
	"/cosmos.bank.v1beta1.MsgSend",
	"/cosmos.staking.v1beta1.MsgDelegate",
}

var c07Disabled = map[string]bool{c07URLs[0]: true, c07URLs[1]: true, c07URLs[2]: true, c07URLs[3]: true}

func genC07Shape(t *rapid.T) c07Shape {
	s := c07Shape{}
	kinds := []string{"eth", "send", "vest", "vestperiodic", "vestperm"}
	genMsg := func() c07Msg {
		switch k := rapid.IntRange(0, 9).Draw(t, "msgk"); {
		case k <= 4:
			return c07Msg{Kind: "eth"}
		case k == 5:
			return c07Msg{Kind: "send"}
		case k == 6:
			return c07Msg{Kind: rapid.SampledFrom(kinds[2:]).Draw(t, "vestkind")}
		case k <= 8:
			return c07Msg{Kind: "exec", Depth: rapid.IntRange(1, 5).Draw(t, "depth"), Inner: rapid.SampledFrom(kinds).Draw(t, "inner")}
		default:
			return c07Msg{Kind: "grant", GrantURL: rapid.SampledFrom(c07URLs).Draw(t, "url")}
		}
	}
	// exec trees: 1-3 messages per exec, nested up to 5 levels, mixing clean and disabled leaves and grants
	var genTree func(depth int, label string) c07Msg
	genList := func(depth int, label string, n int) []c07Msg {
		var out []c07Msg
		for i := 0; i < n; i++ {
			l := fmt.Sprintf("%s_%d", label, i)
			switch k := rapid.IntRange(0, 9).Draw(t, l+"k"); {
			case k <= 3 && depth < 5:
				out = append(out, genTree(depth+1, l))
			case k <= 5:
				out = append(out, c07Msg{Kind: "send"})
			case k <= 7:
				out = append(out, c07Msg{Kind: rapid.SampledFrom(kinds).Draw(t, l+"leaf")})
			default:
				out = append(out, c07Msg{Kind: "grant", GrantURL: rapid.SampledFrom(c07URLs).Draw(t, l+"url")})
			}
		}
		// screening must cover every sibling: put a harmless exec first half of the time
		if len(out) >= 2 && rapid.Bool().Draw(t, label+"cleanfirst") {
			out[0] = c07Msg{Kind: "exec", Kids: []c07Msg{{Kind: "send"}}}
		}
		return out
	}
	genTree = func(depth int, label string) c07Msg {
		return c07Msg{Kind: "exec", Kids: genList(depth, label, rapid.IntRange(1, 3).Draw(t, label+"n"))}
	}
	n := 1
	switch rapid.IntRange(0, 9).Draw(t, "multi") {
	case 0, 1:
		n = rapid.IntRange(0, 3).Draw(t, "nmsgs")
		for i := 0; i < n; i++ {
			s.Msgs = append(s.Msgs, genMsg())
		}
	case 2, 3:
		s.Msgs = genList(0, "top", rapid.IntRange(1, 3).Draw(t, "ntop"))
	default:
		s.Msgs = append(s.Msgs, genMsg())
	}
	// each further dimension deviates from the canonical Ethereum shape with small probability
	// (one case in three deviates often, so that combinations of two or three deviations - e.g. no critical option
	// but a non-critical one - are generated regularly, not once in a thousand cases)
	devRate := rapid.SampledFrom([]int{7, 7, 2}).Draw(t, "devrate")
	dev := func(label string) bool { return rapid.IntRange(0, devRate).Draw(t, label) == devRate }
	s.Ext = "eth"
	if dev("devext") {
		s.Ext = rapid.SampledFrom([]string{"", "dyn", "unknown", "eth+eth", "eth+dyn"}).Draw(t, "ext")
	}
	s.NonCrit = dev("devnoncrit")
	if s.NonCrit {
		s.NonCritKind = rapid.SampledFrom([]string{"", "dyn", "eth+dyn", "unknown"}).Draw(t, "noncritkind")
	}
	if dev("devsig") {
		s.Sig = "valid"
	}
	if dev("devmemo") {
		// visible memos, and memos a trimming or emptiness test may take for "no memo"
		s.Memo = rapid.SampledFrom([]string{"m", "hello world", " ", "\t", "\n", " \r\n ", "\u00a0", "\u200b", "\x00", "0"}).Draw(t, "memo")
	}
	if dev("devtimeout") {
		// past, current and future heights, and the boundaries of the signed / unsigned 64-bit ranges
		s.Timeout = rapid.SampledFrom([]uint64{1, 2, 3, 5, 50, 100, 1 << 31, 1 << 32, 1<<63 - 1, 1 << 63, 1<<63 + 1, 1<<64 - 2, 1<<64 - 1}).Draw(t, "timeout")
	}
	s.Payer = dev("devpayer")
	s.Granter = dev("devgranter")
	if dev("devfee") {
		s.Fee = rapid.SampledFrom([]string{"more", "less", "otherdenom", "none", "two"}).Draw(t, "fee")
	}
	if dev("devgas") {
		s.Gas = rapid.SampledFrom([]string{"more", "less"}).Draw(t, "gas")
	}
	if dev("devrawsig") {
		switch rapid.IntRange(0, 2).Draw(t, "rawsigk") {
		case 0:
			s.RawSigs = rapid.IntRange(1, 2).Draw(t, "rawsigs")
		case 1:
			s.Sig, s.DropSigInfos = "valid", true
		default:
			s.Sig, s.DropSignature = "valid", true
		}
	}
	// Cosmos-lane txs need a signature to get anywhere
	hasEthTop := false
	for _, m := range s.Msgs {
		if m.Kind == "eth" {
			hasEthTop = true
		}
	}
	if !hasEthTop || len(s.Msgs) != 1 {
		if rapid.IntRange(0, 3).Draw(t, "cosmossig") != 3 {
			s.Sig = "valid"
			s.Ext = rapid.SampledFrom([]string{"", "", "dyn", "eth"}).Draw(t, "cext")
		}
	}
	return s
}

func genC07(t *rapid.T) c07Case {
	n := rapid.IntRange(1, c07Keys).Draw(t, "nshapes")
	cs := c07Case{}
	for i := 0; i < n; i++ {
		cs.Shapes = append(cs.Shapes, genC07Shape(t))
	}
	return cs
}

func c07World() chain.World {
	w := chain.World{GenesisTime: 1700000000, NumVals: 1, BaseFee: "1000000000", MinGasPrice: "0", MaxGas: 40000000}
	for i := 0; i < c07Keys; i++ {
		w.Accounts = append(w.Accounts, chain.GenAccount{Key: i, Coins: map[string]string{chain.Denom: eoaFunds, chain.SecondDenom: "1000000000"}})
	}
	return w
}

// buildC07 builds the tx bytes of a shape for sender key k. ethTx is the embedded tx of the first "eth" message (if any).
func buildC07(c *chain.Chain, s c07Shape, k int, seq, accNum uint64) ([]byte, *ethtypes.Transaction, error) {
	key := chain.K(k)
	var firstEth *ethtypes.Transaction
	mkEth := func() (sdk.Msg, error) {
		e := chain.EthTx{From: k, Type: 2, Nonce: seq, Gas: 21000, FeeCap: "2000000000", TipCap: "1", To: chain.K((k + 1) % c07Keys).Addr.Hex(), Value: "1"}
		tx, err := e.Sign()
		if err != nil {
			return nil, err
		}
		if firstEth == nil {
			firstEth = tx
		}
		bz, err := tx.MarshalBinary()
		if err != nil {
			return nil, err
		}
		return &evmtypes.MsgEthereumTx{MarshalledTx: bz, From: key.Acc().String()}, nil
	}
	target := chain.ExtraKey(k).Acc().String()
	coins := sdk.NewCoins(sdk.NewCoin(chain.Denom, sdkmath.NewInt(1000)))
	mkBasic := func(kind string) (sdk.Msg, error) {
		switch kind {
		case "eth":
			return mkEth()
		case "send":
			return banktypes.NewMsgSend(key.Acc(), chain.K((k+1)%c07Keys).Acc(), coins), nil
		case "vest":
			return vestingtypes.NewMsgCreateVestingAccount(key.Acc(), sdk.MustAccAddressFromBech32(target), coins, time.Now().Unix()+100000, false), nil
		case "vestperiodic":
			return vestingtypes.NewMsgCreatePeriodicVestingAccount(key.Acc(), sdk.MustAccAddressFromBech32(target), 1700000000, []vestingtypes.Period{{Length: 100000, Amount: coins}}), nil
		case "vestperm":
			return vestingtypes.NewMsgCreatePermanentLockedAccount(key.Acc(), sdk.MustAccAddressFromBech32(target), coins), nil
		}
		return nil, fmt.Errorf("bad kind %s", kind)
	}
	var mkMsg func(m c07Msg) (sdk.Msg, error)
	mkMsg = func(m c07Msg) (sdk.Msg, error) {
		switch m.Kind {
		case "exec":
			if len(m.Kids) > 0 {
				var inner []sdk.Msg
				for _, kid := range m.Kids {
					im, err := mkMsg(kid)
					if err != nil {
						return nil, err
					}
					inner = append(inner, im)
				}
				ex := authz.NewMsgExec(key.Acc(), inner)
				return &ex, nil
			}
			cur, err := mkBasic(m.Inner)
			if err != nil {
				return nil, err
			}
			for d := 0; d < m.Depth; d++ {
				ex := authz.NewMsgExec(key.Acc(), []sdk.Msg{cur})
				cur = &ex
			}
			return cur, nil
		case "grant":
			exp := time.Unix(1900000000, 0)
			return authz.NewMsgGrant(key.Acc(), chain.K((k+1)%c07Keys).Acc(), authz.NewGenericAuthorization(m.GrantURL), &exp)
		default:
			return mkBasic(m.Kind)
		}
	}
	var msgs []sdk.Msg
	for _, m := range s.Msgs {
		msg, err := mkMsg(m)
		if err != nil {
			return nil, nil, err
		}
		msgs = append(msgs, msg)
	}
	ct := chain.CosmosTx{Signer: k, Msgs: msgs, Memo: s.Memo, Timeout: s.Timeout, NoSig: s.Sig != "valid"}
	// fee and gas: canonical = those of the embedded Ethereum tx (or a sane Cosmos fee)
	gas := uint64(400000)
	fee := new(big.Int).Mul(big.NewInt(2000000000), new(big.Int).SetUint64(gas))
	if firstEth != nil {
		gas = firstEth.Gas()
		fee = new(big.Int).Mul(firstEth.GasFeeCap(), new(big.Int).SetUint64(gas))
	}
	switch s.Gas {
	case "more":
		gas++
	case "less":
		gas--
	}
	ct.Gas = gas
	switch s.Fee {
	case "":
		ct.Fee = sdk.NewCoins(sdk.NewCoin(chain.Denom, sdkmath.NewIntFromBigInt(fee)))
	case "more":
		ct.Fee = sdk.NewCoins(sdk.NewCoin(chain.Denom, sdkmath.NewIntFromBigInt(fee).AddRaw(1)))
	case "less":
		ct.Fee = sdk.NewCoins(sdk.NewCoin(chain.Denom, sdkmath.NewIntFromBigInt(fee).SubRaw(1)))
	case "otherdenom":
		ct.Fee = sdk.NewCoins(sdk.NewCoin(chain.SecondDenom, sdkmath.NewIntFromBigInt(fee)))
	case "none":
		ct.Fee = sdk.Coins{}
	case "two":
		ct.Fee = sdk.NewCoins(sdk.NewCoin(chain.Denom, sdkmath.NewIntFromBigInt(fee)), sdk.NewCoin(chain.SecondDenom, sdkmath.NewInt(1)))
	}
	ethOpt, _ := codectypes.NewAnyWithValue(&evmtypes.ExtensionOptionsEthereumTx{})
	dynOpt, _ := codectypes.NewAnyWithValue(&evertypes.ExtensionOptionDynamicFeeTx{MaxPriorityPrice: sdkmath.NewInt(1)})
	unkOpt, _ := codectypes.NewAnyWithValue(&banktypes.MsgSend{})
	switch s.Ext {
	case "eth":
		ct.ExtOpts = []*codectypes.Any{ethOpt}
	case "dyn":
		ct.ExtOpts = []*codectypes.Any{dynOpt}
	case "unknown":
		ct.ExtOpts = []*codectypes.Any{unkOpt}
	case "eth+eth":
		ct.ExtOpts = []*codectypes.Any{ethOpt, ethOpt}
	case "eth+dyn":
		ct.ExtOpts = []*codectypes.Any{ethOpt, dynOpt}
	}
	if s.NonCrit {
		switch s.NonCritKind {
		case "dyn":
			ct.NonCritExt = []*codectypes.Any{dynOpt}
		case "eth+dyn":
			ct.NonCritExt = []*codectypes.Any{ethOpt, dynOpt}
		case "unknown":
			ct.NonCritExt = []*codectypes.Any{unkOpt}
		default:
			ct.NonCritExt = []*codectypes.Any{ethOpt}
		}
	}
	if s.Payer {
		ct.FeePayer = key.Acc().String()
	}
	if s.Granter {
		ct.FeeGranter = chain.K((k + 1) % c07Keys).Acc().String()
	}
	bz, err := ct.Build(c.TxCfg, c.World.CID(), accNum, seq)
	if err != nil || (s.RawSigs == 0 && !s.DropSigInfos && !s.DropSignature) {
		return bz, firstEth, err
	}
	// proto-level surgery: shapes no tx builder produces
	var raw txtypes.TxRaw
	if err := raw.Unmarshal(bz); err != nil {
		return bz, firstEth, nil
	}
	for i := 0; i < s.RawSigs; i++ {
		raw.Signatures = append(raw.Signatures, bytes.Repeat([]byte{byte(0x11 * (i + 1))}, 65))
	}
	if s.DropSignature {
		raw.Signatures = nil
	}
	if s.DropSigInfos {
		var ai txtypes.AuthInfo
		if err := ai.Unmarshal(raw.AuthInfoBytes); err == nil {
			ai.SignerInfos = nil
			raw.AuthInfoBytes, _ = ai.Marshal()
		}
	}
	out, err := raw.Marshal()
	return out, firstEth, err
}

// ethShapeOK is the acceptance rule written from the property text, evaluated on the decoded proto tx.
func ethShapeOK(raw *txtypes.Tx, evmDenom string) (bool, string) {
	if raw.Body == nil || raw.AuthInfo == nil {
		return false, "missing body/auth info"
	}
	if len(raw.Body.Messages) != 1 {
		return false, "not the sole message"
	}
	if raw.Body.Messages[0].TypeUrl != "/ethermint.evm.v1.MsgEthereumTx" {
		return false, "not an Ethereum message"
	}
	if len(raw.Signatures) != 0 {
		return false, "has Cosmos signatures"
	}
	if len(raw.AuthInfo.SignerInfos) != 0 {
		return false, "has signer infos"
	}
	if raw.AuthInfo.Fee == nil {
		return false, "no fee"
	}
	if raw.AuthInfo.Fee.Payer != "" || raw.AuthInfo.Fee.Granter != "" {
		return false, "has fee payer/granter"
	}
	if raw.Body.Memo != "" {
		return false, "has memo"
	}
	if raw.Body.TimeoutHeight != 0 {
		return false, "has timeout height"
	}
	if len(raw.Body.NonCriticalExtensionOptions) != 0 {
		return false, "has non-critical extension options"
	}
	for _, o := range raw.Body.ExtensionOptions {
		if o.TypeUrl != "/ethermint.evm.v1.ExtensionOptionsEthereumTx" {
			return false, "foreign extension option"
		}
	}
	if len(raw.Body.ExtensionOptions) > 1 {
		return false, "several extension options"
	}
	var msg evmtypes.MsgEthereumTx
	if err := msg.Unmarshal(raw.Body.Messages[0].Value); err != nil {
		return false, "undecodable message"
	}
	etx := &ethtypes.Transaction{}
	if err := etx.UnmarshalBinary(msg.MarshalledTx); err != nil {
		return false, "undecodable embedded tx"
	}
	if raw.AuthInfo.Fee.GasLimit != etx.Gas() {
		return false, "gas limit differs from the embedded tx"
	}
	wantFee := new(big.Int).Mul(etx.GasFeeCap(), new(big.Int).SetUint64(etx.Gas()))
	fee := raw.AuthInfo.Fee.Amount
	if wantFee.Sign() == 0 {
		if len(fee) != 0 {
			return false, "fee differs from the embedded tx"
		}
	} else if len(fee) != 1 || fee[0].Denom != evmDenom || fee[0].Amount.BigInt().Cmp(wantFee) != 0 {
		return false, "fee differs from the embedded tx"
	}
	return true, ""
}

// containsDisabledNested reports whether the tx nests an Ethereum / vesting-creation message in an exec at any depth,
// nests deeper than the limit, or grants one of those message types. Evaluated on decoded messages.
func c07Nested(msgs []sdk.Msg, lvl int) (nested bool, grant bool) {
	for _, m := range msgs {
		switch x := m.(type) {
		case *authz.MsgExec:
			inner, err := x.GetMessages()
			if err != nil {
				continue
			}
			n, g := c07Nested(inner, lvl+1)
			nested, grant = nested || n, grant || g
		case *authz.MsgGrant:
			if a, err := x.GetAuthorization(); err == nil && c07Disabled[a.MsgTypeURL()] {
				grant = true
			}
		default:
			if lvl > 1 && c07Disabled[sdk.MsgTypeURL(m)] {
				nested = true
			}
		}
	}
	return
}

func runC07(cs c07Case) *Outcome {
	o := &Outcome{}
	c, err := chain.NewStarted(c07World(), chain.NodeOpts{})
	if err != nil {
		o.dev("", "fixed world rejected: %v", err)
		return o
	}
	defer c.Close()
	if _, err := c.RunBlock(chain.Block{Dt: 1}); err != nil {
		o.dev("", "first block failed: %v", err)
		return o
	}
	ctx := c.CommittedCtx()
	type built struct {
		bz     []byte
		raw    txtypes.Tx
		msgs   []sdk.Msg
		hasEth bool
		shape  c07Shape
	}
	var bs []built
	for i, s := range cs.Shapes {
		accNum, seq, _ := c.AccountInfo(ctx, chain.K(i).Acc())
		bz, _, err := buildC07(c, s, i, seq, accNum)
		if err != nil {
			o.label("unbuildable")
			continue
		}
		b := built{bz: bz, shape: s}
		if err := b.raw.Unmarshal(bz); err != nil {
			o.dev("", "harness cannot decode its own tx: %v", err)
			continue
		}
		if dtx, err := c.TxCfg.TxDecoder()(bz); err == nil {
			b.msgs = dtx.GetMsgs()
		}
		if b.raw.Body == nil {
			b.raw.Body = &txtypes.TxBody{}
		}
		for _, m := range b.raw.Body.Messages {
			if m.TypeUrl == "/ethermint.evm.v1.MsgEthereumTx" {
				b.hasEth = true
			}
		}
		bs = append(bs, b)
	}
	judge := func(mode string, b built, accepted bool) {
		ok, why := ethShapeOK(&b.raw, chain.Denom)
		nested, grant := c07Nested(b.msgs, 1)
		if accepted {
			if b.hasEth && !ok {
				o.dev("", "%s: accepted a tx containing an Ethereum message that violates the Ethereum-lane shape (%s): %+v", mode, why, b.shape)
			}
			if nested {
				o.dev("", "%s: accepted a tx nesting an Ethereum/vesting-creation message inside exec: %+v", mode, b.shape)
			}
			if grant {
				o.dev("", "%s: accepted a grant for an Ethereum/vesting-creation message: %+v", mode, b.shape)
			}
			if b.hasEth && ok {
				o.label(mode + ":eth-lane-accepted")
				o.NonTrivial = true
			} else {
				o.label(mode + ":cosmos-accepted")
			}
		} else {
			if b.hasEth || nested || grant {
				o.label(mode + ":rejected-eth-related")
				// near miss: exactly one dimension off
				o.NonTrivial = true
			} else {
				o.label(mode + ":rejected-other")
			}
		}
	}
	// check / recheck / simulate through the real ABCI entry points
	acceptedCheck := make([]bool, len(bs))
	for _, b := range bs {
		// clients simulate before broadcasting: the check state still equals the committed state
		c.LastAnte.Ran = false
		_, _, _ = c.Simulate(b.bz)
		judge("simulate", b, c.LastAnte.Ran && c.LastAnte.Err == nil && c.LastAnte.Simulate)
	}
	for i, b := range bs {
		res, err := c.CheckTx(b.bz, false)
		acceptedCheck[i] = err == nil && res != nil && res.Code == 0
		judge("check", b, acceptedCheck[i])
	}
	// CometBFT re-checks the mempool after a commit (which resets the check state)
	if _, err := c.RunBlock(chain.Block{Dt: 1}); err != nil {
		o.dev("", "empty block failed: %v", err)
		return o
	}
	for i, b := range bs {
		if acceptedCheck[i] {
			res2, err2 := c.CheckTx(b.bz, true)
			judge("recheck", b, err2 == nil && res2 != nil && res2.Code == 0)
		}
	}
	// deliver
	var txs [][]byte
	for _, b := range bs {
		txs = append(txs, b.bz)
	}
	rec := execBlock(c, blockRecord{}, 1, 0, txs, nil)
	if rec.Err != nil {
		o.dev("", "deliver block failed: %v", rec.Err)
		return o
	}
	for i, b := range bs {
		tr := rec.Txs[i]
		judge("deliver", b, tr.admitted())
		if tr.Res == nil {
			continue
		}
		// which handlers ran
		ranEVM := len(findEvents(tr.Res.Events, "tx_receipt")) > 0
		if ranEVM {
			if ok, why := ethShapeOK(&b.raw, chain.Denom); !ok {
				o.dev("", "deliver: the EVM message handler ran for a tx outside the Ethereum lane (%s): %+v", why, b.shape)
			}
		}
		if tr.Res.Code == 0 {
			// a vesting account must not have been created through nesting
			if n, _ := c07Nested(b.msgs, 1); n {
				o.dev("", "deliver: tx nesting a disabled message succeeded: %+v", b.shape)
			}
		}
	}
	return o
}

func TestC07(t *testing.T) { runProp(t, "C07", genC07, runC07) }

// FuzzC07Shape — coverage-guided mutation of whole tx bytes seeded from valid shapes of both lanes; the oracle is the
// same one-directional acceptance rule: whatever CheckTx / FinalizeBlock admit must satisfy the Ethereum-lane shape if it
// carries an Ethereum message, and must not nest or grant a disabled message.
func FuzzC07Shape(f *testing.F) {
	c, err := chain.NewStarted(c07World(), chain.NodeOpts{})
	if err != nil {
		f.Fatal(err)
	}
	if _, err := c.RunBlock(chain.Block{Dt: 1}); err != nil {
		f.Fatal(err)
	}
	ctx := c.CommittedCtx()
	seeds := []c07Shape{
		{Msgs: []c07Msg{{Kind: "eth"}}, Ext: "eth"},
		{Msgs: []c07Msg{{Kind: "eth"}}, Ext: "eth", Memo: "m"},
		{Msgs: []c07Msg{{Kind: "eth"}, {Kind: "send"}}, Ext: "eth", Sig: "valid"},
		{Msgs: []c07Msg{{Kind: "send"}}, Sig: "valid"},
		{Msgs: []c07Msg{{Kind: "exec", Kids: []c07Msg{{Kind: "send"}, {Kind: "exec", Kids: []c07Msg{{Kind: "eth"}}}}}}, Sig: "valid"},
		{Msgs: []c07Msg{{Kind: "exec", Kids: []c07Msg{{Kind: "send"}}}, {Kind: "exec", Kids: []c07Msg{{Kind: "vest"}}}}, Sig: "valid"},
		{Msgs: []c07Msg{{Kind: "grant", GrantURL: c07URLs[0]}}, Sig: "valid"},
		{Msgs: []c07Msg{{Kind: "eth"}}, Ext: "eth+dyn", Payer: true},
	}
	for i, s := range seeds {
		accNum, seq, _ := c.AccountInfo(ctx, chain.K(i%c07Keys).Acc())
		if bz, _, err := buildC07(c, s, i%c07Keys, seq, accNum); err == nil {
			f.Add(bz)
		}
	}
	var mu sync.Mutex
	f.Fuzz(func(t *testing.T, bz []byte) {
		mu.Lock()
		defer mu.Unlock()
		var raw txtypes.Tx
		if err := raw.Unmarshal(bz); err != nil || raw.Body == nil || raw.AuthInfo == nil {
			return
		}
		hasEth := false
		for _, m := range raw.Body.Messages {
			if m.TypeUrl == "/ethermint.evm.v1.MsgEthereumTx" {
				hasEth = true
			}
		}
		var msgs []sdk.Msg
		if dtx, err := c.TxCfg.TxDecoder()(bz); err == nil {
			msgs = dtx.GetMsgs()
		}
		nested, grant := c07Nested(msgs, 1)
		if !hasEth && !nested && !grant {
			return
		}
		res, err := c.CheckTx(bz, false)
		if len(c.Panics) > 0 {
			p := c.Panics[0]
			c.Panics = nil
			t.Fatalf("panic escaped CheckTx: %s", truncS(p, 800))
		}
		if err != nil || res == nil || res.Code != 0 {
			return
		}
		if ok, why := ethShapeOK(&raw, chain.Denom); hasEth && !ok {
			t.Fatalf("CheckTx accepted a tx containing an Ethereum message that violates the Ethereum-lane shape: %s", why)
		}
		if nested {
			t.Fatalf("CheckTx accepted a tx nesting an Ethereum/vesting-creation message inside exec")
		}
		if grant {
			t.Fatalf("CheckTx accepted a grant for an Ethereum/vesting-creation message")
		}
	})
}

package props

import (
	"encoding/hex"
	"fmt"
	"math/big"
	"strconv"

	sdkmath "cosmossdk.io/math"
	abci "github.com/cometbft/cometbft/abci/types"
	sdk "github.com/cosmos/cosmos-sdk/types"
	authtypes "github.com/cosmos/cosmos-sdk/x/auth/types"
	banktypes "github.com/cosmos/cosmos-sdk/x/bank/types"
	"github.com/ethereum/go-ethereum/common"
	ethtypes "github.com/ethereum/go-ethereum/core/types"
	"pgregory.net/rapid"

	cpctypes "github.com/EscanBE/evermint/v12/x/cpc/types"
	evmtypes "github.com/EscanBE/evermint/v12/x/evm/types"
	"github.com/cosmos/cosmos-sdk/x/authz"

	"verif/harness/chain"
	"verif/harness/evmgen"
)

const (
	nEOA      = 4 // keys 0..3 are funded EOAs used as senders
	eoaFunds  = "1000000000000000000000000"
	gwei      = 1000000000
	deadAddr  = "0x00000000000000000000000000000000deadbeef"
	zeroAddr  = "0x0000000000000000000000000000000000000000"
	erc20Addr = "0xcc01000000000000000000000000000000000001" // filled from cpc types at init
)

func poolAddr(i int) string {
	return fmt.Sprintf("0xc0de0000000000000000000000000000000000%02x", i+1)
}

// TxPlan is a transaction described relative to the chain state at build time.
type TxPlan struct {
	Kind     string          `json:"kind"` // eth | bank | raw
	From     int             `json:"from"`
	Type     int             `json:"type,omitempty"`
	NonceOff int             `json:"nonce_off,omitempty"`
	Gas      uint64          `json:"gas,omitempty"`
	CapOver  int64           `json:"cap_over,omitempty"` // fee cap / gas price = base fee + CapOver
	Tip      uint64          `json:"tip,omitempty"`
	To       string          `json:"to,omitempty"`
	Value    string          `json:"value,omitempty"`
	Data     string          `json:"data,omitempty"`
	AL       []chain.ALEntry `json:"al,omitempty"`
	Mut      string          `json:"mut,omitempty"`
	// bank
	ToKey  int    `json:"to_key,omitempty"`
	Amount string `json:"amount,omitempty"`
	Raw    string `json:"raw,omitempty"`
	// replay of the bytes of an earlier tx of the history: block index and tx index
	RBlock int `json:"rblock,omitempty"`
	RIndex int `json:"rindex,omitempty"`
}

// BlockPlan is one block of plans.
type BlockPlan struct {
	Dt       int64    `json:"dt"`
	Proposer int      `json:"proposer"`
	Txs      []TxPlan `json:"txs"`
	// GovFee, when set, is a fee-market parameter update enacted by governance in this block: the module's message
	// server runs with the governance authority before the end blockers, as the gov end blocker does for a passed proposal
	GovFee *GovFeePlan `json:"gov_fee,omitempty"`
}

type GovFeePlan struct {
	BaseFee     string `json:"base_fee"`
	MinGasPrice string `json:"min_gas_price"`
}

// worldCfg steers the EVM world generator.
type worldCfg struct {
	FlatFee     bool // base fee 0, min gas price 0, MaxGas -1
	NoCtx       bool
	NoGasRead   bool
	NoDestruct  bool
	NoCreate    bool
	Cpc         bool // deploy custom precompiles
	MaxGasSmall bool // allow small block gas limits
	OnlyEvmCoin bool
	PoolEOAFrom int  // first EOA key index that may appear as an address operand (senders below it stay out of the pool)
	Senders     int  // number of sender keys (default nEOA)
	ModAddrs    bool // module accounts (x/evm's own, the fee collector) appear as tx recipients and address operands
}

// genEvmWorld generates a world with funded EOAs and 2..6 soup contracts.
func genEvmWorld(t *rapid.T, cfg worldCfg) chain.World {
	w := chain.World{
		GenesisTime: rapid.Int64Range(1500000000, 1900000000).Draw(t, "genesis_time"),
		NumVals:     rapid.IntRange(1, 3).Draw(t, "nvals"),
		MaxGas:      40000000,
	}
	if cfg.FlatFee {
		w.BaseFee, w.MinGasPrice, w.MaxGas = "0", "0", -1
	} else {
		w.BaseFee = strconv.FormatInt(rapid.SampledFrom([]int64{0, 7, gwei, 50 * gwei}).Draw(t, "basefee"), 10)
		// incl. fractional minimum prices just below a base fee the chain decays onto within a block or two
		w.MinGasPrice = rapid.SampledFrom([]string{"0", "0", "3.5", "1000000000", "999999999.5", "900000000.25"}).Draw(t, "mingas")
		if rapid.IntRange(0, 3).Draw(t, "maxgask") == 0 {
			w.MaxGas = -1
		}
	}
	if cfg.Cpc {
		w.Erc20Native, w.StakingCpc = true, true
	}
	for i := 0; i < nEOA; i++ {
		coins := map[string]string{chain.Denom: eoaFunds}
		if !cfg.OnlyEvmCoin && i%2 == 1 {
			coins[chain.SecondDenom] = "1000000"
		}
		w.Accounts = append(w.Accounts, chain.GenAccount{Key: i, Coins: coins})
	}
	n := rapid.IntRange(2, 6).Draw(t, "ncontracts")
	var targets, addrs []string
	for i := 0; i < n; i++ {
		targets = append(targets, poolAddr(i))
	}
	addrs = append(addrs, targets...)
	for i := cfg.PoolEOAFrom; i < nEOA; i++ {
		addrs = append(addrs, chain.K(i).Addr.Hex())
	}
	addrs = append(addrs, zeroAddr, deadAddr, "0x0000000000000000000000000000000000000001", "0x0000000000000000000000000000000000000004", "0x0000000000000000000000000000000000000009", "0x000000000000000000000000000000000000000a")
	gc := evmgen.GenCfg{Addrs: addrs, CallTargets: targets, NoCtx: cfg.NoCtx, NoGasRead: cfg.NoGasRead, NoCreate: cfg.NoCreate, NoDestruct: cfg.NoDestruct, MaxStmts: 7, Depth: 2}
	for i := 0; i < n; i++ {
		var p evmgen.Program
		switch k := rapid.IntRange(0, 11).Draw(t, "progkind"); {
		case k <= 3:
			p = evmgen.GenReentrant(t, gc, poolAddr(i))
		case k <= 5:
			p = evmgen.GenRepeater(t, gc)
		case k == 6 && !cfg.NoDestruct:
			p = evmgen.GenDestructor(t, gc)
		default:
			p = evmgen.GenProgram(t, gc)
		}
		c := chain.GenContract{Addr: poolAddr(i), Code: evmgen.CompileHex(p), Nonce: 1}
		if rapid.Bool().Draw(t, "hasbal") {
			c.Balance = strconv.FormatUint(rapid.Uint64Range(1, 1000000000).Draw(t, "cbal"), 10)
		}
		if !cfg.OnlyEvmCoin && rapid.IntRange(0, 3).Draw(t, "hasfoo") == 0 {
			c.Coins = map[string]string{chain.SecondDenom: "777"}
		}
		ns := rapid.IntRange(0, 3).Draw(t, "nslots")
		if ns > 0 {
			c.Storage = map[string]string{}
			for j := 0; j < ns; j++ {
				slot := rapid.IntRange(0, 7).Draw(t, "gslot")
				c.Storage[common.BigToHash(big.NewInt(int64(slot))).Hex()] = common.BigToHash(new(big.Int).SetUint64(rapid.Uint64Range(1, 1<<30).Draw(t, "gval"))).Hex()
			}
		}
		if rapid.IntRange(0, 3).Draw(t, "edgeslots") == 0 {
			// slots at the edges of the key space (the last key of an account's storage range is where a range iterator's
			// exclusive end bound bites) and a value that fills the whole word
			if c.Storage == nil {
				c.Storage = map[string]string{}
			}
			for _, k := range []string{"0xffffffffffffffffffffffffffffffffffffffffffffffffffffffffffffffff", "0x8000000000000000000000000000000000000000000000000000000000000000",
				"0xfffffffffffffffffffffffffffffffffffffffffffffffffffffffffffffffe", "0x00000000000000000000000000000000000000000000000000000000000000ff"} {
				if rapid.Bool().Draw(t, "edgeslot") {
					c.Storage[k] = rapid.SampledFrom([]string{"0x000000000000000000000000000000000000000000000000000000000000002a",
						"0xffffffffffffffffffffffffffffffffffffffffffffffffffffffffffffffff"}).Draw(t, "edgeval")
				}
			}
		}
		w.Contracts = append(w.Contracts, c)
	}
	return w
}

func worldGenCfg(w chain.World, cfg worldCfg) evmgen.GenCfg {
	var targets, addrs []string
	for _, c := range w.Contracts {
		targets = append(targets, c.Addr)
	}
	addrs = append(addrs, targets...)
	for i := cfg.PoolEOAFrom; i < nEOA; i++ {
		addrs = append(addrs, chain.K(i).Addr.Hex())
	}
	addrs = append(addrs, zeroAddr, deadAddr)
	if cfg.ModAddrs {
		addrs = append(addrs, modAddr("evm"), modAddr("fee_collector"))
	}
	return evmgen.GenCfg{Addrs: addrs, CallTargets: targets, NoCtx: cfg.NoCtx, NoGasRead: cfg.NoGasRead, NoCreate: cfg.NoCreate, NoDestruct: cfg.NoDestruct, MaxStmts: 5, Depth: 2}
}

// genEthPlan generates an Ethereum tx plan against a world.
func genEthPlan(t *rapid.T, w chain.World, cfg worldCfg, allowInvalid bool) TxPlan {
	ns := cfg.Senders
	if ns <= 0 {
		ns = nEOA
	}
	p := TxPlan{Kind: "eth", From: rapid.IntRange(0, ns-1).Draw(t, "from"), Type: rapid.IntRange(0, 2).Draw(t, "txtype")}
	gc := worldGenCfg(w, cfg)
	// destination
	switch rapid.IntRange(0, 9).Draw(t, "destk") {
	case 0: // create
		p.To = ""
		p.Data = evmgen.GenInit(t, gc)
	case 1: // EOA / misc
		misc := []string{chain.K(3).Addr.Hex(), chain.K(2).Addr.Hex(), deadAddr, zeroAddr, "0x0000000000000000000000000000000000000002"}
		if cfg.ModAddrs {
			// the x/evm module's own account, through which the StateDB moves every coin it mints or burns, and the fee collector
			misc = append(misc, modAddr("evm"), modAddr("fee_collector"))
		}
		p.To = rapid.SampledFrom(misc).Draw(t, "toeoa")
	default:
		p.To = w.Contracts[rapid.IntRange(0, len(w.Contracts)-1).Draw(t, "tocontract")].Addr
		if rapid.Bool().Draw(t, "hascd") {
			p.Data = fmt.Sprintf("%02x", rapid.IntRange(0, 3).Draw(t, "cd0")) + hex.EncodeToString(rapid.SliceOfN(rapid.Byte(), 0, 40).Draw(t, "cdrest"))
		}
	}
	// value
	switch rapid.IntRange(0, 5).Draw(t, "valk") {
	case 0, 1, 2:
		p.Value = "0"
	case 3:
		p.Value = strconv.FormatUint(rapid.Uint64Range(1, 1000000).Draw(t, "val"), 10)
	case 4:
		p.Value = "1000000000000000000" // 1 ether
	case 5:
		if allowInvalid {
			p.Value = "2000000000000000000000000" // more than funded
		} else {
			p.Value = "1"
		}
	}
	// gas
	switch rapid.IntRange(0, 7).Draw(t, "gask") {
	case 0:
		p.Gas = rapid.Uint64Range(21000, 60000).Draw(t, "gaslow")
	case 1:
		p.Gas = rapid.Uint64Range(60000, 200000).Draw(t, "gasmid")
	default:
		p.Gas = rapid.Uint64Range(200000, 3000000).Draw(t, "gashigh")
	}
	if allowInvalid && rapid.IntRange(0, 19).Draw(t, "gasbad") == 19 {
		p.Gas = rapid.SampledFrom([]uint64{20999, 21000, 50000000}).Draw(t, "gasbadv")
		if w.MaxGas > 0 {
			// limits at the edges of the integer widths - only where the block gas limit is finite: with an unlimited block
			// (max_gas = -1) and a near-zero price such a limit is affordable, and a looping contract then really runs for
			// 2^63 gas (hours of CPU, tens of GB of cache layers): a property of that configuration, not of the code
			p.Gas = rapid.SampledFrom([]uint64{20999, 21000, 50000000, 1<<32 - 1, 1 << 32, 1<<63 - 1, 1 << 63, 1<<64 - 1}).Draw(t, "gasedge")
		}
	}
	if allowInvalid && rapid.IntRange(0, 24).Draw(t, "valbad") == 24 {
		// values at the edges of the integer widths an implementation may narrow to
		p.Value = rapid.SampledFrom([]string{"18446744073709551615", "18446744073709551616", "340282366920938463463374607431768211456",
			"57896044618658097711785492504343953926634992332820282019728792003956564819968",
			"115792089237316195423570985008687907853269984665640564039457584007913129639935"}).Draw(t, "valbadv")
	}
	// price
	if cfg.FlatFee {
		p.CapOver, p.Tip = 1, 1
	} else {
		switch rapid.IntRange(0, 12).Draw(t, "pricek") {
		case 12:
			p.CapOver, p.Tip = 0, 0
		case 0, 6, 7, 8, 9, 10, 11:
			p.CapOver, p.Tip = rapid.Int64Range(1, 3*gwei).Draw(t, "capany"), uint64(rapid.Int64Range(0, 3*gwei).Draw(t, "tipany"))
		case 1:
			p.CapOver, p.Tip = gwei, uint64(rapid.Int64Range(0, gwei).Draw(t, "tip"))
		case 2:
			p.CapOver, p.Tip = 10*gwei, uint64(rapid.Int64Range(0, 20*gwei).Draw(t, "tipbig"))
		case 3:
			p.CapOver, p.Tip = rapid.Int64Range(0, 100).Draw(t, "capsmall"), uint64(rapid.Int64Range(0, 100).Draw(t, "tipsmall"))
		case 4:
			p.CapOver, p.Tip = 2*gwei, 2*gwei
		case 5:
			if allowInvalid && rapid.Bool().Draw(t, "reallybelow") {
				p.CapOver = -rapid.Int64Range(1, 10).Draw(t, "capbelow")
			} else {
				p.CapOver, p.Tip = gwei, 1
			}
		}
	}
	// access list
	if p.Type > 0 && rapid.Bool().Draw(t, "hasal") {
		na := rapid.IntRange(1, 3).Draw(t, "nal")
		for i := 0; i < na; i++ {
			e := chain.ALEntry{Addr: gc.Addrs[rapid.IntRange(0, len(gc.Addrs)-1).Draw(t, "aladdr")]}
			for j := rapid.IntRange(0, 2).Draw(t, "nalslots"); j > 0; j-- {
				e.Slots = append(e.Slots, common.BigToHash(big.NewInt(int64(rapid.IntRange(0, 7).Draw(t, "alslot")))).Hex())
			}
			p.AL = append(p.AL, e)
		}
	}
	if allowInvalid {
		switch rapid.IntRange(0, 49).Draw(t, "mutk") {
		case 43:
			p.NonceOff = -1
		case 44:
			p.NonceOff = 1
		case 45:
			p.Mut = "chainid"
		case 46:
			p.Mut = "wrongfrom"
		case 47:
			p.Mut = "tampersig"
		case 48:
			p.Mut = "tamperdata"
		case 49:
			if p.Type == 0 {
				p.Mut = "unprotected"
			}
		}
	}
	return p
}

func genBankPlan(t *rapid.T) TxPlan {
	return TxPlan{Kind: "bank", From: rapid.IntRange(0, nEOA-1).Draw(t, "bfrom"), ToKey: rapid.IntRange(0, nEOA+1).Draw(t, "bto"),
		Amount: strconv.FormatUint(rapid.Uint64Range(1, 1000000).Draw(t, "bamt"), 10), Gas: 200000, CapOver: gwei}
}

// ----------------------------------------------------------------------------
// building plans into bytes against a live chain

type builtTx struct {
	Bytes  []byte
	Eth    *ethtypes.Transaction // nil for non-eth
	Spec   *chain.EthTx
	Sender common.Address
	Plan   TxPlan
	// ReplayOf is set for replays: the bytes are those of an earlier tx of the history
	ReplayOf []byte
	// SignedSeq is the sequence a Cosmos tx was signed with
	SignedSeq uint64
}

// planBuilder tracks in-block nonces while turning plans into tx bytes.
type planBuilder struct {
	c       *chain.Chain
	ctx     sdk.Context
	baseFee *big.Int
	floor   *big.Int // max(base fee, integer part of the global min gas price)
	seqs    map[int]uint64
}

func newPlanBuilder(c *chain.Chain) *planBuilder {
	var ctx sdk.Context
	if c.Height == 0 {
		ctx = c.PendingCtx()
	} else {
		ctx = c.CommittedCtx()
	}
	fp := c.App.FeeMarketKeeper.GetParams(ctx)
	floor := fp.BaseFee.BigInt()
	if m := fp.MinGasPrice.TruncateInt().BigInt(); m.Cmp(floor) > 0 {
		floor = m
	}
	return &planBuilder{c: c, ctx: ctx, baseFee: fp.BaseFee.BigInt(), floor: floor, seqs: map[int]uint64{}}
}

func (b *planBuilder) seq(key int) uint64 {
	if s, ok := b.seqs[key]; ok {
		return s
	}
	_, s, _ := b.c.AccountInfo(b.ctx, chain.K(key).Acc())
	b.seqs[key] = s
	return s
}

func (b *planBuilder) build(p TxPlan) builtTx {
	switch p.Kind {
	case "eth":
		seq := b.seq(p.From)
		nonce := uint64(int64(seq) + int64(p.NonceOff))
		if int64(seq)+int64(p.NonceOff) < 0 {
			nonce = seq + 2
		}
		price := new(big.Int).Add(b.floor, big.NewInt(p.CapOver))
		if price.Sign() < 0 {
			price = new(big.Int)
		}
		e := chain.EthTx{From: p.From, Type: p.Type, Nonce: nonce, Gas: p.Gas, To: p.To, Value: p.Value, Data: p.Data, AL: p.AL}
		if p.Type == 2 {
			e.FeeCap = price.String()
			tip := new(big.Int).SetUint64(p.Tip)
			if need := new(big.Int).Sub(b.floor, b.baseFee); p.CapOver >= 0 && tip.Cmp(need) < 0 {
				tip = need
			}
			if tip.Cmp(price) > 0 {
				tip = price
			}
			e.TipCap = tip.String()
		} else {
			e.GasPrice = price.String()
		}
		switch p.Mut {
		case "chainid":
			e.SignChainID = 9000
		case "wrongfrom":
			e.DeclaredFrom = 1 + (p.From+1)%nEOA
		case "noext":
			e.NoExtOpt = true // a valid shape: the tx is expected to execute like any other
		case "longfrom":
			// declared sender = a (funded) 32-byte account ending in the signer's address; the tx carries the nonce that
			// account would need, so that only the sender / signature binding stands between it and admission
			e.DeclaredLong = true
			if _, lseq, ok := b.c.AccountInfo(b.ctx, chain.LongAddr(p.From)); ok {
				e.Nonce = lseq
			}
		case "tampersig":
			e.TamperSig = true
		case "tamperdata":
			e.TamperData = true
		case "unprotected":
			e.Unprotected = true
		}
		bz, tx, err := e.Build(b.c.TxCfg)
		if err != nil {
			panic(fmt.Sprintf("build eth tx: %v", err))
		}
		if p.NonceOff == 0 && (p.Mut == "" || p.Mut == "noext") && price.Sign() > 0 && p.CapOver >= 0 && p.Gas >= 21000 {
			b.seqs[p.From] = seq + 1
		}
		return builtTx{Bytes: bz, Eth: tx, Spec: &e, Sender: chain.K(p.From).Addr, Plan: p}
	case "bank":
		accNum, _, _ := b.c.AccountInfo(b.ctx, chain.K(p.From).Acc())
		seq := b.seq(p.From)
		price := new(big.Int).Add(b.floor, big.NewInt(p.CapOver))
		if price.Sign() < 0 {
			price = new(big.Int)
		}
		fee := new(big.Int).Mul(price, new(big.Int).SetUint64(p.Gas))
		amt, _ := sdkmath.NewIntFromString(p.Amount)
		to := sdk.AccAddress(nil)
		if p.ToKey >= 100 {
			to = chain.LongAddr(p.ToKey - 100) // a 32-byte account that shares its tail with key ToKey-100
		} else {
			to = chain.K(p.ToKey).Acc()
		}
		msg := banktypes.NewMsgSend(chain.K(p.From).Acc(), to, sdk.NewCoins(sdk.NewCoin(chain.Denom, amt)))
		ct := chain.CosmosTx{Signer: p.From, Msgs: []sdk.Msg{msg}, Gas: p.Gas, FeeAmount: fee.String(), SeqDelta: int64(p.NonceOff)}
		if p.Type == 2 {
			// dynamic-fee extension: the fee above is the cap, p.Tip the priority price
			tip := strconv.FormatUint(p.Tip, 10)
			ct.TipCap = &tip
		}
		switch p.Mut {
		case "accnum":
			ct.AccNumDelta = 1
		case "chainid":
			ct.ChainID = "evermint_9000-1"
		case "nosig":
			ct.NoSig = true
		case "wrongsigner":
			ct.Signer = (p.From + 1) % nEOA // signs with another key while the message names p.From
		}
		bz, err := ct.Build(b.c.TxCfg, b.c.World.CID(), accNum, seq)
		if err != nil {
			panic(fmt.Sprintf("build bank tx: %v", err))
		}
		if p.NonceOff == 0 && p.Mut == "" && price.Sign() > 0 && p.CapOver >= 0 {
			b.seqs[p.From] = seq + 1
		}
		return builtTx{Bytes: bz, Sender: chain.K(p.From).Addr, Plan: p, SignedSeq: uint64(int64(seq) + int64(p.NonceOff))}
	case "smuggle":
		// a Cosmos tx signed by the attacker (p.From) that tries to get an Ethereum message signed by somebody else
		// (p.ToKey) executed through the Cosmos lane: nested in authz exec messages / listed beside other messages
		attacker, victim := chain.K(p.From), chain.K(p.ToKey)
		vseq := b.seq(p.ToKey)
		inner := chain.EthTx{From: p.ToKey, Type: 0, Nonce: vseq, Gas: 21000, GasPrice: new(big.Int).Add(b.floor, big.NewInt(1)).String(), To: attacker.Addr.Hex(), Value: "100000000000000000", Unprotected: p.Mut == "unprotected"}
		etx, err := inner.Sign()
		if err != nil {
			panic(err)
		}
		ebz, _ := etx.MarshalBinary()
		declared := attacker.Acc().String() // x/authz accepts an exec whose inner signer is the grantee itself
		if p.Type == 1 {
			declared = victim.Acc().String()
		}
		eth := &evmtypes.MsgEthereumTx{MarshalledTx: ebz, From: declared}
		wrap := func(ms ...sdk.Msg) sdk.Msg {
			ex := authz.NewMsgExec(attacker.Acc(), ms)
			return &ex
		}
		harmless := func() sdk.Msg {
			return banktypes.NewMsgSend(attacker.Acc(), attacker.Acc(), sdk.NewCoins(sdk.NewCoin(chain.Denom, sdkmath.NewInt(1))))
		}
		var msgs []sdk.Msg
		switch p.RIndex % 5 {
		case 0:
			msgs = []sdk.Msg{wrap(eth)}
		case 1:
			msgs = []sdk.Msg{wrap(harmless()), wrap(eth)}
		case 2:
			msgs = []sdk.Msg{wrap(wrap(harmless()), eth)}
		case 3:
			msgs = []sdk.Msg{harmless(), eth}
		default:
			msgs = []sdk.Msg{wrap(harmless()), wrap(wrap(eth))}
		}
		accNum, _, _ := b.c.AccountInfo(b.ctx, attacker.Acc())
		seq := b.seq(p.From)
		fee := new(big.Int).Mul(new(big.Int).Add(b.floor, big.NewInt(gwei)), big.NewInt(600000))
		bz, err := chain.CosmosTx{Signer: p.From, Msgs: msgs, Gas: 600000, FeeAmount: fee.String()}.Build(b.c.TxCfg, b.c.World.CID(), accNum, seq)
		if err != nil {
			panic(fmt.Sprintf("build smuggle tx: %v", err))
		}
		b.seqs[p.From] = seq + 1 // if it is admitted as a Cosmos tx, the attacker's sequence moves
		return builtTx{Bytes: bz, Sender: attacker.Addr, Plan: p, SignedSeq: seq}
	case "deploy20":
		accNum, _, _ := b.c.AccountInfo(b.ctx, chain.K(p.From).Acc())
		seq := b.seq(p.From)
		price := new(big.Int).Add(b.floor, big.NewInt(p.CapOver))
		fee := new(big.Int).Mul(price, new(big.Int).SetUint64(p.Gas))
		msg := &cpctypes.MsgDeployErc20ContractRequest{Authority: chain.K(p.From).Acc().String(), Name: "Foo", Symbol: "FOO", Decimals: 6, MinDenom: chain.SecondDenom}
		bz, err := chain.CosmosTx{Signer: p.From, Msgs: []sdk.Msg{msg}, Gas: p.Gas, FeeAmount: fee.String()}.Build(b.c.TxCfg, b.c.World.CID(), accNum, seq)
		if err != nil {
			panic(fmt.Sprintf("build deploy tx: %v", err))
		}
		b.seqs[p.From] = seq + 1
		return builtTx{Bytes: bz, Sender: chain.K(p.From).Addr, Plan: p, SignedSeq: seq}
	case "raw":
		bz, _ := hex.DecodeString(p.Raw)
		return builtTx{Bytes: bz, Plan: p}
	}
	panic("bad plan kind " + p.Kind)
}

// ----------------------------------------------------------------------------
// result helpers

func findEvents(evs []abci.Event, typ string) []abci.Event {
	var out []abci.Event
	for _, e := range evs {
		if e.Type == typ {
			out = append(out, e)
		}
	}
	return out
}

func attr(e abci.Event, key string) (string, bool) {
	for _, a := range e.Attributes {
		if a.Key == key {
			return a.Value, true
		}
	}
	return "", false
}

var feeCollector = common.BytesToAddress(authtypes.NewModuleAddress(authtypes.FeeCollectorName))

func bankSend(from, to sdk.AccAddress, coins sdk.Coins) sdk.Msg {
	return banktypes.NewMsgSend(from, to, coins)
}

package chain

import (
	"bytes"
	"context"
	sdkmath "cosmossdk.io/math"
	"encoding/hex"
	"fmt"
	"math/big"
	"strings"

	pruningtypes "cosmossdk.io/store/pruning/types"
	"github.com/cosmos/cosmos-sdk/client"
	codectypes "github.com/cosmos/cosmos-sdk/codec/types"
	sdk "github.com/cosmos/cosmos-sdk/types"
	"github.com/cosmos/cosmos-sdk/types/tx/signing"
	authsigning "github.com/cosmos/cosmos-sdk/x/auth/signing"
	authtx "github.com/cosmos/cosmos-sdk/x/auth/tx"
	"github.com/ethereum/go-ethereum/common"
	ethtypes "github.com/ethereum/go-ethereum/core/types"

	evertypes "github.com/EscanBE/evermint/v12/types"
	evmtypes "github.com/EscanBE/evermint/v12/x/evm/types"
)

func prunEverything() pruningtypes.PruningOptions {
	return pruningtypes.NewPruningOptions(pruningtypes.PruningEverything)
}

func prunNothing() pruningtypes.PruningOptions {
	return pruningtypes.NewPruningOptions(pruningtypes.PruningNothing)
}

// ALEntry is one access-list entry.
type ALEntry struct {
	Addr  string   `json:"addr"`
	Slots []string `json:"slots,omitempty"`
}

// EthTx is a JSON-serialisable Ethereum transaction spec.
type EthTx struct {
	From     int       `json:"from"`
	Type     int       `json:"type"` // 0 legacy, 1 access list, 2 dynamic fee
	Nonce    uint64    `json:"nonce"`
	Gas      uint64    `json:"gas"`
	GasPrice string    `json:"gas_price,omitempty"`
	FeeCap   string    `json:"fee_cap,omitempty"`
	TipCap   string    `json:"tip_cap,omitempty"`
	To       string    `json:"to,omitempty"` // hex; empty = create
	Value    string    `json:"value,omitempty"`
	Data     string    `json:"data,omitempty"` // hex
	AL       []ALEntry `json:"al,omitempty"`

	// mutations (all default off)
	SignChainID  int64 `json:"sign_chain_id,omitempty"` // sign for another EIP-155 id
	Unprotected  bool  `json:"unprotected,omitempty"`   // homestead signature (legacy only)
	DeclaredFrom int   `json:"declared_from,omitempty"` // 1+key index declared as sender instead of the signer
	NoExtOpt     bool  `json:"no_ext_opt,omitempty"`    // wrap without the (optional) ExtensionOptionsEthereumTx: the other canonical shape
	DeclaredLong bool  `json:"declared_long,omitempty"` // declare LongAddr(From): a 32-byte account address ending in the signer's 20 bytes
	TamperSig    bool  `json:"tamper_sig,omitempty"`    // flip a bit of S after signing
	TamperData   bool  `json:"tamper_data,omitempty"`   // change payload after signing
}

func bigOf(s string) *big.Int {
	if s == "" {
		return new(big.Int)
	}
	b, ok := new(big.Int).SetString(s, 10)
	if !ok {
		panic("bad big int " + s)
	}
	return b
}

func unhex(s string) []byte {
	s = strings.TrimPrefix(s, "0x")
	b, err := hex.DecodeString(s)
	if err != nil {
		panic(err)
	}
	return b
}

func (e EthTx) accessList() ethtypes.AccessList {
	var al ethtypes.AccessList
	for _, en := range e.AL {
		t := ethtypes.AccessTuple{Address: common.HexToAddress(en.Addr)}
		for _, s := range en.Slots {
			t.StorageKeys = append(t.StorageKeys, common.HexToHash(s))
		}
		al = append(al, t)
	}
	return al
}

// TxData builds the unsigned go-ethereum tx data.
func (e EthTx) TxData(chainID *big.Int) ethtypes.TxData {
	var to *common.Address
	if e.To != "" {
		a := common.HexToAddress(e.To)
		to = &a
	}
	switch e.Type {
	case 1:
		al := e.accessList()
		if al == nil {
			al = ethtypes.AccessList{}
		}
		return &ethtypes.AccessListTx{ChainID: chainID, Nonce: e.Nonce, GasPrice: bigOf(e.GasPrice), Gas: e.Gas, To: to, Value: bigOf(e.Value), Data: unhex(e.Data), AccessList: al}
	case 2:
		al := e.accessList()
		if al == nil {
			al = ethtypes.AccessList{}
		}
		return &ethtypes.DynamicFeeTx{ChainID: chainID, Nonce: e.Nonce, GasFeeCap: bigOf(e.FeeCap), GasTipCap: bigOf(e.TipCap), Gas: e.Gas, To: to, Value: bigOf(e.Value), Data: unhex(e.Data), AccessList: al}
	default:
		return &ethtypes.LegacyTx{Nonce: e.Nonce, GasPrice: bigOf(e.GasPrice), Gas: e.Gas, To: to, Value: bigOf(e.Value), Data: unhex(e.Data)}
	}
}

// Sign produces the signed go-ethereum transaction (with mutations applied).
func (e EthTx) Sign() (*ethtypes.Transaction, error) {
	cid := big.NewInt(EIP155ID)
	if e.SignChainID != 0 {
		cid = big.NewInt(e.SignChainID)
	}
	var signer ethtypes.Signer = ethtypes.LatestSignerForChainID(cid)
	if e.Unprotected && e.Type == 0 {
		signer = ethtypes.HomesteadSigner{}
	}
	tx, err := ethtypes.SignNewTx(K(e.From).ECDSA, signer, e.TxData(cid))
	if err != nil {
		return nil, err
	}
	if e.TamperSig || e.TamperData {
		v, r, s := tx.RawSignatureValues()
		r, s = new(big.Int).Set(r), new(big.Int).Set(s)
		if e.TamperSig {
			s.Xor(s, big.NewInt(2))
		}
		var inner ethtypes.TxData
		td := e
		if e.TamperData {
			td.Value = new(big.Int).Add(bigOf(e.Value), big.NewInt(1)).String()
		}
		switch x := td.TxData(cid).(type) {
		case *ethtypes.LegacyTx:
			x.V, x.R, x.S = v, r, s
			inner = x
		case *ethtypes.AccessListTx:
			x.V, x.R, x.S = v, r, s
			inner = x
		case *ethtypes.DynamicFeeTx:
			x.V, x.R, x.S = v, r, s
			inner = x
		}
		tx = ethtypes.NewTx(inner)
	}
	return tx, nil
}

// Build returns the encoded Cosmos tx wrapping the signed Ethereum tx.
func (e EthTx) Build(txCfg client.TxConfig) ([]byte, *ethtypes.Transaction, error) {
	tx, err := e.Sign()
	if err != nil {
		return nil, nil, err
	}
	from := K(e.From).Addr
	if e.DeclaredFrom > 0 {
		from = K(e.DeclaredFrom - 1).Addr
	}
	if e.DeclaredLong {
		bz, err := WrapEthTxFrom(txCfg, tx, LongAddr(e.From).String())
		return bz, tx, err
	}
	if e.NoExtOpt {
		bz, err := wrapEthTxNoExt(txCfg, tx, sdk.AccAddress(from.Bytes()).String())
		return bz, tx, err
	}
	bz, err := WrapEthTx(txCfg, tx, from)
	return bz, tx, err
}

// LongAddr is a 32-byte account address (the length module and interchain accounts have) whose last 20 bytes are
// the address of key k.
func LongAddr(k int) sdk.AccAddress {
	return sdk.AccAddress(append(bytes.Repeat([]byte{0xee}, 12), K(k).Addr.Bytes()...))
}

// WrapEthTx wraps a signed Ethereum tx into the canonical Cosmos tx bytes.
func WrapEthTx(txCfg client.TxConfig, tx *ethtypes.Transaction, from common.Address) ([]byte, error) {
	return WrapEthTxFrom(txCfg, tx, sdk.AccAddress(from.Bytes()).String())
}

// wrapEthTxNoExt wraps like MsgEthereumTx.BuildTx but leaves the extension option out (the lane predicate allows that).
func wrapEthTxNoExt(txCfg client.TxConfig, tx *ethtypes.Transaction, from string) ([]byte, error) {
	ethBz, err := tx.MarshalBinary()
	if err != nil {
		return nil, err
	}
	msg := &evmtypes.MsgEthereumTx{MarshalledTx: ethBz, From: from}
	b := txCfg.NewTxBuilder()
	if err := b.SetMsgs(msg); err != nil {
		return nil, err
	}
	fee := new(big.Int).Mul(tx.GasFeeCap(), new(big.Int).SetUint64(tx.Gas()))
	if fee.Sign() > 0 {
		b.SetFeeAmount(sdk.NewCoins(sdk.NewCoin(Denom, sdkmath.NewIntFromBigInt(fee))))
	}
	b.SetGasLimit(tx.Gas())
	return txCfg.TxEncoder()(b.GetTx())
}

// WrapEthTxFrom is WrapEthTx with the declared sender given as the string that goes into the message.
func WrapEthTxFrom(txCfg client.TxConfig, tx *ethtypes.Transaction, from string) ([]byte, error) {
	ethBz, err := tx.MarshalBinary()
	if err != nil {
		return nil, err
	}
	msg := &evmtypes.MsgEthereumTx{MarshalledTx: ethBz, From: from}
	stx, err := msg.BuildTx(txCfg.NewTxBuilder(), Denom)
	if err != nil {
		return nil, err
	}
	return txCfg.TxEncoder()(stx)
}

// ----------------------------------------------------------------------------
// Cosmos transactions

// CosmosTx describes a Cosmos-lane transaction to be signed with SIGN_MODE_DIRECT.
type CosmosTx struct {
	Signer    int
	Msgs      []sdk.Msg
	Gas       uint64
	FeeAmount string // in Denom; "" = no fee coins
	FeeDenom  string // default Denom
	Memo      string
	Timeout   uint64
	TipCap    *string // dynamic fee extension option
	// perturbations
	SeqDelta    int64
	AccNumDelta int64
	ChainID     string // override sign chain id
	NoSig       bool
	ExtOpts     []*codectypes.Any
	NonCritExt  []*codectypes.Any
	FeePayer    string
	FeeGranter  string
	Fee         sdk.Coins // overrides FeeAmount/FeeDenom when non-nil (may hold several coins)
	Unordered   bool
}

// BuildCosmos signs and encodes the tx using account number/sequence given.
func (t CosmosTx) Build(txCfg client.TxConfig, chainID string, accNum, seq uint64) ([]byte, error) {
	b := txCfg.NewTxBuilder()
	if err := b.SetMsgs(t.Msgs...); err != nil {
		return nil, err
	}
	b.SetGasLimit(t.Gas)
	denom := t.FeeDenom
	if denom == "" {
		denom = Denom
	}
	if t.Fee != nil {
		b.SetFeeAmount(t.Fee)
	} else if t.FeeAmount != "" {
		b.SetFeeAmount(sdk.NewCoins(sdk.NewCoin(denom, mustInt(t.FeeAmount))))
	}
	b.SetMemo(t.Memo)
	b.SetTimeoutHeight(t.Timeout)
	if t.FeePayer != "" {
		b.SetFeePayer(sdk.MustAccAddressFromBech32(t.FeePayer))
	}
	if t.FeeGranter != "" {
		b.SetFeeGranter(sdk.MustAccAddressFromBech32(t.FeeGranter))
	}
	if eb, ok := b.(authtx.ExtensionOptionsTxBuilder); ok {
		opts := append([]*codectypes.Any{}, t.ExtOpts...)
		if t.TipCap != nil {
			any, err := codectypes.NewAnyWithValue(&evertypes.ExtensionOptionDynamicFeeTx{MaxPriorityPrice: mustInt(*t.TipCap)})
			if err != nil {
				return nil, err
			}
			opts = append(opts, any)
		}
		if len(opts) > 0 {
			eb.SetExtensionOptions(opts...)
		}
		if len(t.NonCritExt) > 0 {
			eb.SetNonCriticalExtensionOptions(t.NonCritExt...)
		}
	}
	if t.NoSig {
		return txCfg.TxEncoder()(b.GetTx())
	}
	key := K(t.Signer)
	seq = uint64(int64(seq) + t.SeqDelta)
	accNum = uint64(int64(accNum) + t.AccNumDelta)
	if t.ChainID != "" {
		chainID = t.ChainID
	}
	sigV2 := signing.SignatureV2{
		PubKey:   key.Priv.PubKey(),
		Data:     &signing.SingleSignatureData{SignMode: signing.SignMode_SIGN_MODE_DIRECT},
		Sequence: seq,
	}
	if err := b.SetSignatures(sigV2); err != nil {
		return nil, err
	}
	signerData := authsigning.SignerData{
		Address:       key.Acc().String(),
		ChainID:       chainID,
		AccountNumber: accNum,
		Sequence:      seq,
		PubKey:        key.Priv.PubKey(),
	}
	signBytes, err := authsigning.GetSignBytesAdapter(context.Background(), txCfg.SignModeHandler(), signing.SignMode_SIGN_MODE_DIRECT, signerData, b.GetTx())
	if err != nil {
		return nil, fmt.Errorf("sign bytes: %w", err)
	}
	sig, err := key.Priv.Sign(signBytes)
	if err != nil {
		return nil, err
	}
	sigV2.Data = &signing.SingleSignatureData{SignMode: signing.SignMode_SIGN_MODE_DIRECT, Signature: sig}
	if err := b.SetSignatures(sigV2); err != nil {
		return nil, err
	}
	return txCfg.TxEncoder()(b.GetTx())
}

// AccountInfo reads account number and sequence.
func (c *Chain) AccountInfo(ctx sdk.Context, addr sdk.AccAddress) (accNum, seq uint64, ok bool) {
	acc := c.App.AccountKeeper.GetAccount(ctx, addr)
	if acc == nil {
		return 0, 0, false
	}
	return acc.GetAccountNumber(), acc.GetSequence(), true
}

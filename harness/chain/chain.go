package chain

import (
	"bytes"
	"crypto/sha256"
	"encoding/binary"
	"encoding/json"
	"fmt"
	"os"
	"runtime/debug"
	"sort"
	"time"

	"cosmossdk.io/log"
	storetypes "cosmossdk.io/store/types"
	abci "github.com/cometbft/cometbft/abci/types"
	cmtproto "github.com/cometbft/cometbft/proto/tendermint/types"
	sdkdb "github.com/cosmos/cosmos-db"
	"github.com/cosmos/cosmos-sdk/baseapp"
	"github.com/cosmos/cosmos-sdk/client"
	"github.com/cosmos/cosmos-sdk/server"
	simtestutil "github.com/cosmos/cosmos-sdk/testutil/sims"
	"github.com/cosmos/cosmos-sdk/telemetry"
	sdk "github.com/cosmos/cosmos-sdk/types"

	chainapp "github.com/EscanBE/evermint/v12/app"
)

// NodeOpts are node-local settings that must not influence consensus results.
type NodeOpts struct {
	MinGasPrices string // e.g. "5wei"
	Pruning      string // "nothing" | "everything" | "default"
	IAVLCache    int
	Tracer       string // evm.tracer: "", "json", "struct", "access_list", "markdown"
	IndexEvents  []string
	DB           sdkdb.DB // nil -> fresh MemDB
	Telemetry    bool     // app.toml [telemetry] enabled = true (a process-wide switch in the SDK: set around every ABCI call)
}

var telemetryOn bool

// nodeTelemetry does what server start-up does with the [telemetry] section of app.toml.
func nodeTelemetry(on bool) {
	if telemetryOn == on {
		return
	}
	_, _ = telemetry.New(telemetry.Config{ServiceName: "verif", Enabled: on, EnableHostname: false, PrometheusRetentionTime: 0})
	telemetryOn = on
}

// Obs is one observation point inside FinalizeBlock.
type Obs struct {
	Kind    string // "ante" (before the ante handler of a tx) | "post" | "end" (before end blockers)
	TxIndex int    // index into the block's tx list (-1 for "end")
	Ctx     sdk.Context
	Success bool // for "post": whether messages succeeded
}

// Observer is called synchronously at each observation point; it must only read.
type Observer func(o Obs)

// Chain drives a real *app.Evermint through the ABCI surface.
type Chain struct {
	World   World
	App     *chainapp.Evermint
	DB      sdkdb.DB
	Home    string
	Height  int64
	Time    time.Time
	Hashes  map[int64][]byte // header hash per height as given to FinalizeBlock
	AppHash []byte
	Opts    NodeOpts

	observer  Observer
	curTxs    [][]byte
	nextIdx   int
	TxCfg     client.TxConfig
	innerAnte sdk.AnteHandler
	// AnteResults of the current/last block: index -> error of the ante handler (nil = admitted)
	AnteErr map[int]error
	AnteRan map[int]bool
	// LastAnte records the most recent ante handler invocation in any mode.
	LastAnte struct {
		Ran      bool
		Err      error
		Check    bool
		ReCheck  bool
		Simulate bool
	}
	// PanicLog collects panics recovered around ABCI calls.
	Panics []string
}

type appOpts map[string]interface{}

func (m appOpts) Get(k string) interface{} { return m[k] }

// New creates the app, installs observers and runs InitChain.
func New(w World, opts NodeOpts) (*Chain, error) {
	home, err := os.MkdirTemp("", "verif-home-")
	if err != nil {
		return nil, err
	}
	db := opts.DB
	if db == nil {
		db = sdkdb.NewMemDB()
	}
	c := &Chain{World: w, DB: db, Home: home, Hashes: map[int64][]byte{}, Opts: opts}

	ao := appOpts{}
	for k, v := range simtestutil.NewAppOptionsWithFlagHome(home).(simtestutil.AppOptionsMap) {
		ao[k] = v
	}
	if opts.Tracer != "" {
		ao["evm.tracer"] = opts.Tracer
	}
	if opts.IAVLCache != 0 {
		ao[server.FlagIAVLCacheSize] = opts.IAVLCache
	}
	var bopts []func(*baseapp.BaseApp)
	bopts = append(bopts, baseapp.SetChainID(w.CID()))
	if opts.MinGasPrices != "" {
		bopts = append(bopts, baseapp.SetMinGasPrices(opts.MinGasPrices))
	}
	if len(opts.IndexEvents) > 0 {
		bopts = append(bopts, baseapp.SetIndexEvents(opts.IndexEvents))
	}
	switch opts.Pruning {
	case "everything":
		bopts = append(bopts, baseapp.SetPruning(prunEverything()))
	case "nothing":
		bopts = append(bopts, baseapp.SetPruning(prunNothing()))
	}

	enc := chainapp.RegisterEncodingConfig()
	app := chainapp.NewEvermint(log.NewNopLogger(), db, nil, false, map[int64]bool{}, home, 0, enc, ao, bopts...)
	c.App = app
	c.TxCfg = app.GetTxConfig()

	c.innerAnte = app.AnteHandler()
	app.SetAnteHandler(c.anteWrap)
	app.SetEndBlocker(func(ctx sdk.Context) (sdk.EndBlock, error) {
		if c.observer != nil {
			c.observer(Obs{Kind: "end", TxIndex: -1, Ctx: readCtx(ctx)})
		}
		return app.EndBlocker(ctx)
	})
	if err := app.LoadLatestVersion(); err != nil {
		return nil, err
	}
	return c, nil
}

// Start runs InitChain for the world.
func (c *Chain) Start() (err error) {
	defer c.guard("InitChain", &err)
	gs := c.World.BuildGenesis(c.App.AppCodec(), c.App.ModuleBasics.DefaultGenesis(c.App.AppCodec()))
	bz, e := json.Marshal(gs)
	if e != nil {
		return e
	}
	return c.StartFromAppState(bz)
}

// StartFromAppState runs InitChain with a raw app state.
func (c *Chain) StartFromAppState(appState []byte) (err error) {
	defer c.guard("InitChain", &err)
	res, e := c.App.InitChain(c.World.InitChainRequest(appState))
	if e != nil {
		return e
	}
	c.AppHash = res.AppHash
	c.Height = 0
	c.Time = time.Unix(c.World.GenesisTime, 0).UTC()
	return nil
}

// NewStarted = New + Start.
func NewStarted(w World, opts NodeOpts) (*Chain, error) {
	c, err := New(w, opts)
	if err != nil {
		return nil, err
	}
	if err := c.Start(); err != nil {
		c.Close()
		return nil, err
	}
	return c, nil
}

// Close removes the temp home.
func (c *Chain) Close() {
	if c.Home != "" {
		_ = os.RemoveAll(c.Home)
	}
}

func (c *Chain) guard(what string, err *error) {
	if r := recover(); r != nil {
		msg := fmt.Sprintf("PANIC in %s: %v\n%s", what, r, debug.Stack())
		c.Panics = append(c.Panics, msg)
		*err = fmt.Errorf("panic in %s: %v", what, r)
	}
}

// SetObserver installs the observer used for the following blocks.
func (c *Chain) SetObserver(o Observer) { c.observer = o }

func readCtx(ctx sdk.Context) sdk.Context {
	return ctx.WithGasMeter(storetypes.NewInfiniteGasMeter()).
		WithKVGasConfig(storetypes.GasConfig{}).
		WithTransientKVGasConfig(storetypes.GasConfig{}).
		WithEventManager(sdk.NewEventManager())
}

func (c *Chain) anteWrap(ctx sdk.Context, tx sdk.Tx, sim bool) (sdk.Context, error) {
	deliver := !ctx.IsCheckTx() && !ctx.IsReCheckTx() && !sim && c.curTxs != nil
	idx := -1
	if deliver {
		bz := ctx.TxBytes()
		for i := c.nextIdx; i < len(c.curTxs); i++ {
			if bytes.Equal(c.curTxs[i], bz) {
				idx = i
				c.nextIdx = i + 1
				break
			}
		}
		if c.observer != nil {
			c.observer(Obs{Kind: "ante", TxIndex: idx, Ctx: readCtx(ctx)})
		}
	}
	c.LastAnte.Ran, c.LastAnte.Err = false, nil
	newCtx, err := c.innerAnte(ctx, tx, sim)
	c.LastAnte.Ran, c.LastAnte.Err = true, err
	c.LastAnte.Check, c.LastAnte.ReCheck, c.LastAnte.Simulate = ctx.IsCheckTx(), ctx.IsReCheckTx(), sim
	if deliver && idx >= 0 {
		c.AnteRan[idx] = true
		c.AnteErr[idx] = err
	}
	return newCtx, err
}

// Block is the input of one height.
type Block struct {
	Dt       int64    `json:"dt"`       // seconds added to the previous block time (>=0)
	Proposer int      `json:"proposer"` // validator index
	Txs      [][]byte `json:"-"`
	Hash     []byte   `json:"-"` // header hash handed to FinalizeBlock (default: HeaderHash)
}

// HeaderHash deterministically derives the hash handed to FinalizeBlock for a height.
func HeaderHash(height int64, t time.Time) []byte {
	var b [16]byte
	binary.BigEndian.PutUint64(b[:8], uint64(height))
	binary.BigEndian.PutUint64(b[8:], uint64(t.Unix()))
	h := sha256.Sum256(b[:])
	return h[:]
}

// RunBlock executes FinalizeBlock + Commit for the next height.
func (c *Chain) RunBlock(b Block) (res *abci.ResponseFinalizeBlock, err error) {
	nodeTelemetry(c.Opts.Telemetry)
	defer c.guard("FinalizeBlock", &err)
	h := c.Height + 1
	t := c.Time.Add(time.Duration(b.Dt) * time.Second)
	nv := c.World.NumVals
	if nv < 1 {
		nv = 1
	}
	hash := HeaderHash(h, t)
	if len(b.Hash) > 0 {
		hash = b.Hash
	}
	c.curTxs = b.Txs
	if c.curTxs == nil {
		c.curTxs = [][]byte{}
	}
	c.nextIdx = 0
	c.AnteErr = map[int]error{}
	c.AnteRan = map[int]bool{}
	defer func() { c.curTxs = nil }()

	var votes []abci.VoteInfo
	for i := 0; i < nv; i++ {
		votes = append(votes, abci.VoteInfo{
			Validator:   abci.Validator{Address: ValConsAddr(i), Power: 1},
			BlockIdFlag: cmtproto.BlockIDFlagCommit,
		})
	}
	req := &abci.RequestFinalizeBlock{
		Height:            h,
		Time:              t,
		Txs:               b.Txs,
		Hash:              hash,
		ProposerAddress:   ValConsAddr(b.Proposer % nv),
		DecidedLastCommit: abci.CommitInfo{Votes: votes},
	}
	res, e := c.App.FinalizeBlock(req)
	if e != nil {
		return nil, e
	}
	if _, e := c.App.Commit(); e != nil {
		return res, e
	}
	c.Height = h
	c.Time = t
	c.Hashes[h] = hash
	c.AppHash = res.AppHash
	return res, nil
}

// CommittedCtx returns a read context over the last committed state.
func (c *Chain) CommittedCtx() sdk.Context {
	hdr := cmtproto.Header{ChainID: c.World.CID(), Height: c.Height, Time: c.Time}
	return readCtx(c.App.NewUncachedContext(false, hdr))
}

// PendingCtx returns the finalize-block state context (valid after InitChain before the first block).
func (c *Chain) PendingCtx() sdk.Context {
	return readCtx(c.App.GetContextForFinalizeBlock(nil))
}

// CheckTx runs CheckTx (new or recheck).
func (c *Chain) CheckTx(tx []byte, recheck bool) (res *abci.ResponseCheckTx, err error) {
	nodeTelemetry(c.Opts.Telemetry)
	defer c.guard("CheckTx", &err)
	typ := abci.CheckTxType_New
	if recheck {
		typ = abci.CheckTxType_Recheck
	}
	return c.App.CheckTx(&abci.RequestCheckTx{Tx: tx, Type: typ})
}

// Simulate runs BaseApp.Simulate.
func (c *Chain) Simulate(tx []byte) (gi sdk.GasInfo, res *sdk.Result, err error) {
	nodeTelemetry(c.Opts.Telemetry)
	defer c.guard("Simulate", &err)
	return c.App.Simulate(tx)
}

// Query runs an ABCI query at the latest height.
func (c *Chain) Query(path string, data []byte, height int64) (res *abci.ResponseQuery, err error) {
	nodeTelemetry(c.Opts.Telemetry)
	defer c.guard("Query", &err)
	return c.App.Query(nil, &abci.RequestQuery{Path: path, Data: data, Height: height})
}

// ----------------------------------------------------------------------------
// store dump

// KV is one key/value pair.
type KV struct {
	K, V []byte
}

// StoreDump is a sorted dump of all KV stores.
type StoreDump map[string][]KV

// Dump reads every mounted IAVL store through ctx.
func (c *Chain) Dump(ctx sdk.Context) StoreDump {
	out := StoreDump{}
	keys := c.App.GetKVStoreKey()
	for name, key := range keys {
		st := ctx.MultiStore().GetKVStore(key)
		it := st.Iterator(nil, nil)
		var kvs []KV
		for ; it.Valid(); it.Next() {
			kvs = append(kvs, KV{K: append([]byte{}, it.Key()...), V: append([]byte{}, it.Value()...)})
		}
		it.Close()
		out[name] = kvs
	}
	return out
}

// Digest hashes a dump.
func (d StoreDump) Digest() [32]byte {
	names := make([]string, 0, len(d))
	for n := range d {
		names = append(names, n)
	}
	sort.Strings(names)
	h := sha256.New()
	var l [8]byte
	for _, n := range names {
		h.Write([]byte(n))
		for _, kv := range d[n] {
			binary.BigEndian.PutUint64(l[:], uint64(len(kv.K)))
			h.Write(l[:])
			h.Write(kv.K)
			binary.BigEndian.PutUint64(l[:], uint64(len(kv.V)))
			h.Write(l[:])
			h.Write(kv.V)
		}
	}
	var r [32]byte
	copy(r[:], h.Sum(nil))
	return r
}

// DiffEntry is one differing key.
type DiffEntry struct {
	Store string
	Key   []byte
	A, B  []byte // nil = absent
}

// Diff lists keys that differ between two dumps.
func Diff(a, b StoreDump) []DiffEntry {
	var out []DiffEntry
	names := map[string]bool{}
	for n := range a {
		names[n] = true
	}
	for n := range b {
		names[n] = true
	}
	sorted := make([]string, 0, len(names))
	for n := range names {
		sorted = append(sorted, n)
	}
	sort.Strings(sorted)
	for _, n := range sorted {
		x, y := a[n], b[n]
		i, j := 0, 0
		for i < len(x) || j < len(y) {
			switch {
			case j >= len(y) || (i < len(x) && bytes.Compare(x[i].K, y[j].K) < 0):
				out = append(out, DiffEntry{n, x[i].K, x[i].V, nil})
				i++
			case i >= len(x) || bytes.Compare(x[i].K, y[j].K) > 0:
				out = append(out, DiffEntry{n, y[j].K, nil, y[j].V})
				j++
			default:
				if !bytes.Equal(x[i].V, y[j].V) {
					out = append(out, DiffEntry{n, x[i].K, x[i].V, y[j].V})
				}
				i++
				j++
			}
		}
	}
	return out
}

func (e DiffEntry) String() string {
	return fmt.Sprintf("%s/%x: %x -> %x", e.Store, e.Key, e.A, e.B)
}

// PrepareProposal asks the application to build a proposal for the next height from candidate txs.
func (c *Chain) PrepareProposal(txs [][]byte, maxBytes int64) (res *abci.ResponsePrepareProposal, err error) {
	defer c.guard("PrepareProposal", &err)
	return c.App.PrepareProposal(&abci.RequestPrepareProposal{Txs: txs, MaxTxBytes: maxBytes, Height: c.Height + 1, Time: c.Time.Add(time.Second), ProposerAddress: ValConsAddr(0)})
}

// ProcessProposal asks the application to validate a proposal for the next height.
func (c *Chain) ProcessProposal(txs [][]byte) (res *abci.ResponseProcessProposal, err error) {
	defer c.guard("ProcessProposal", &err)
	return c.App.ProcessProposal(&abci.RequestProcessProposal{Txs: txs, Height: c.Height + 1, Time: c.Time.Add(time.Second), ProposerAddress: ValConsAddr(0), Hash: HeaderHash(c.Height+1, c.Time.Add(time.Second))})
}

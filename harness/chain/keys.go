package chain

import (
	"crypto/ecdsa"
	"fmt"

	sdk "github.com/cosmos/cosmos-sdk/types"
	"github.com/ethereum/go-ethereum/common"
	ethcrypto "github.com/ethereum/go-ethereum/crypto"

	cmdcfg "github.com/EscanBE/evermint/v12/cmd/config"
	"github.com/EscanBE/evermint/v12/crypto/ethsecp256k1"
)

func init() {
	cfg := sdk.GetConfig()
	cmdcfg.SetBech32Prefixes(cfg)
	cmdcfg.SetBip44CoinType(cfg)
}

// Key is one deterministic eth_secp256k1 key of the fixed key pool.
type Key struct {
	Index int
	Priv  *ethsecp256k1.PrivKey
	ECDSA *ecdsa.PrivateKey
	Addr  common.Address
}

func (k Key) Acc() sdk.AccAddress { return sdk.AccAddress(k.Addr.Bytes()) }
func (k Key) Val() sdk.ValAddress { return sdk.ValAddress(k.Addr.Bytes()) }

// NKeys is the size of the fixed key pool.
const NKeys = 12

var keyPool [NKeys]Key

func init() {
	for i := 0; i < NKeys; i++ {
		keyPool[i] = makeKey(i)
	}
}

func makeKey(i int) Key {
	seed := ethcrypto.Keccak256([]byte(fmt.Sprintf("verif-key-%d", i)))
	ec, err := ethcrypto.ToECDSA(seed)
	if err != nil {
		panic(err)
	}
	return Key{
		Index: i,
		Priv:  &ethsecp256k1.PrivKey{Key: ethcrypto.FromECDSA(ec)},
		ECDSA: ec,
		Addr:  ethcrypto.PubkeyToAddress(ec.PublicKey),
	}
}

// K returns key i of the pool.
func K(i int) Key { return keyPool[i%NKeys] }

// ExtraKey derives a key outside the pool (not funded at genesis).
func ExtraKey(i int) Key { return makeKey(1000 + i) }

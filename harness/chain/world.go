package chain

import (
	"crypto/sha256"
	"encoding/json"
	"fmt"
	"math/big"
	"sort"
	"time"

	sdkmath "cosmossdk.io/math"
	abci "github.com/cometbft/cometbft/abci/types"
	cmtproto "github.com/cometbft/cometbft/proto/tendermint/types"
	cmttypes "github.com/cometbft/cometbft/types"
	"github.com/cosmos/cosmos-sdk/codec"
	codectypes "github.com/cosmos/cosmos-sdk/codec/types"
	"github.com/cosmos/cosmos-sdk/crypto/keys/ed25519"
	sdk "github.com/cosmos/cosmos-sdk/types"
	authtypes "github.com/cosmos/cosmos-sdk/x/auth/types"
	vestingtypes "github.com/cosmos/cosmos-sdk/x/auth/vesting/types"
	banktypes "github.com/cosmos/cosmos-sdk/x/bank/types"
	govtypes "github.com/cosmos/cosmos-sdk/x/gov/types"
	govv1 "github.com/cosmos/cosmos-sdk/x/gov/types/v1"
	minttypes "github.com/cosmos/cosmos-sdk/x/mint/types"
	slashingtypes "github.com/cosmos/cosmos-sdk/x/slashing/types"
	stakingtypes "github.com/cosmos/cosmos-sdk/x/staking/types"
	"github.com/ethereum/go-ethereum/common"

	"github.com/EscanBE/evermint/v12/constants"
	cpctypes "github.com/EscanBE/evermint/v12/x/cpc/types"
	evmtypes "github.com/EscanBE/evermint/v12/x/evm/types"
	feemarkettypes "github.com/EscanBE/evermint/v12/x/feemarket/types"
)

const (
	Denom       = constants.BaseDenom
	DefaultCID  = "evermint_80808-1"
	EIP155ID    = 80808
	SecondDenom = "ufoo"
)

// World is the JSON-serialisable description of a genesis state.
type World struct {
	ChainID     string        `json:"chain_id,omitempty"`
	GenesisTime int64         `json:"genesis_time"`
	NumVals     int           `json:"num_vals"`
	Accounts    []GenAccount  `json:"accounts"`
	Contracts   []GenContract `json:"contracts,omitempty"`
	BaseFee     string        `json:"base_fee"`
	MinGasPrice string        `json:"min_gas_price"` // decimal string
	MaxGas      int64         `json:"max_gas"`
	MaxBytes    int64         `json:"max_bytes,omitempty"`
	Erc20Native bool          `json:"erc20_native,omitempty"`
	StakingCpc  bool          `json:"staking_cpc,omitempty"`
	Deployers   []int         `json:"deployers,omitempty"` // key indices whitelisted as cpc deployers
	NoCreate    bool          `json:"no_create,omitempty"`
	NoCall      bool          `json:"no_call,omitempty"`
	ExtraEIPs   []int64       `json:"extra_eips,omitempty"`
	NoInflation bool          `json:"no_inflation,omitempty"`
	GovFast     bool          `json:"gov_fast,omitempty"`   // governance with a 2 s voting period and a 1-unit minimum deposit
	ValTokens   string        `json:"val_tokens,omitempty"` // bonded tokens per validator (default 1e18)
}

// GenAccount is a genesis account. Either Key (>=0, pool key) or Addr (hex) identifies it.
type GenAccount struct {
	Key      int               `json:"key"`
	Addr     string            `json:"addr,omitempty"`
	Coins    map[string]string `json:"coins,omitempty"`
	Sequence uint64            `json:"sequence,omitempty"`
	Vesting  *VestingSpec      `json:"vesting,omitempty"`
	Unfunded bool              `json:"unfunded,omitempty"` // vesting account holding no coins at all (e.g. everything delegated/spent)
}

// VestingSpec describes a vesting account. Kind: continuous | delayed | periodic | permanent.
type VestingSpec struct {
	Kind     string            `json:"kind"`
	Start    int64             `json:"start,omitempty"`
	End      int64             `json:"end,omitempty"`
	Original map[string]string `json:"original"`
	Periods  []int64           `json:"periods,omitempty"` // lengths; original split evenly
}

// GenContract is a pre-deployed contract.
type GenContract struct {
	Addr    string            `json:"addr"`
	Code    string            `json:"code"` // hex
	Storage map[string]string `json:"storage,omitempty"`
	Balance string            `json:"balance,omitempty"`
	Coins   map[string]string `json:"coins,omitempty"` // extra denoms
	Nonce   uint64            `json:"nonce,omitempty"`
}

func (a GenAccount) Address() common.Address {
	if a.Key >= 0 && a.Addr == "" {
		return K(a.Key).Addr
	}
	return common.HexToAddress(a.Addr)
}

func mustInt(s string) sdkmath.Int {
	if s == "" {
		return sdkmath.ZeroInt()
	}
	i, ok := sdkmath.NewIntFromString(s)
	if !ok {
		panic("bad int " + s)
	}
	return i
}

func coinsOf(m map[string]string) sdk.Coins {
	var cs sdk.Coins
	keys := make([]string, 0, len(m))
	for d := range m {
		keys = append(keys, d)
	}
	sort.Strings(keys)
	for _, d := range keys {
		amt := mustInt(m[d])
		if amt.IsPositive() {
			cs = cs.Add(sdk.NewCoin(d, amt))
		}
	}
	return cs
}

// ValConsKey returns the deterministic consensus key of validator i.
func ValConsKey(i int) *ed25519.PrivKey {
	seed := sha256.Sum256([]byte(fmt.Sprintf("verif-val-%d", i)))
	return ed25519.GenPrivKeyFromSecret(seed[:])
}

// ValOperKey returns the pool key operating validator i.
func ValOperKey(i int) Key { return K(NKeys - 1 - i) }

// ValConsAddr returns the consensus address bytes of validator i.
func ValConsAddr(i int) []byte { return ValConsKey(i).PubKey().Address() }

func (w World) CID() string {
	if w.ChainID == "" {
		return DefaultCID
	}
	return w.ChainID
}

func (w World) valTokens() sdkmath.Int {
	if w.ValTokens == "" {
		return sdk.DefaultPowerReduction
	}
	return mustInt(w.ValTokens)
}

// ConsensusParams of the world.
func (w World) ConsensusParams() *cmtproto.ConsensusParams {
	mb := w.MaxBytes
	if mb == 0 {
		mb = 2000000
	}
	return &cmtproto.ConsensusParams{
		Block: &cmtproto.BlockParams{MaxBytes: mb, MaxGas: w.MaxGas},
		Evidence: &cmtproto.EvidenceParams{
			MaxAgeNumBlocks: 302400,
			MaxAgeDuration:  504 * time.Hour,
			MaxBytes:        10000,
		},
		Validator: &cmtproto.ValidatorParams{PubKeyTypes: []string{cmttypes.ABCIPubKeyTypeEd25519}},
	}
}

// BuildGenesis builds the app-state JSON for InitChain.
func (w World) BuildGenesis(cdc codec.Codec, def map[string]json.RawMessage) map[string]json.RawMessage {
	gs := def
	nv := w.NumVals
	if nv < 1 {
		nv = 1
	}

	var genAccs []authtypes.GenesisAccount
	var balances []banktypes.Balance
	supply := sdk.NewCoins()
	seen := map[common.Address]bool{}

	addBal := func(addr sdk.AccAddress, coins sdk.Coins) {
		if coins.IsZero() {
			return
		}
		balances = append(balances, banktypes.Balance{Address: addr.String(), Coins: coins})
		supply = supply.Add(coins...)
	}

	for _, a := range w.Accounts {
		addr := a.Address()
		if seen[addr] {
			continue
		}
		seen[addr] = true
		base := authtypes.NewBaseAccount(addr.Bytes(), nil, 0, a.Sequence)
		coins := coinsOf(a.Coins)
		if a.Vesting != nil {
			orig := coinsOf(a.Vesting.Original)
			bva, err := vestingtypes.NewBaseVestingAccount(base, orig, a.Vesting.End)
			if err != nil {
				panic(err)
			}
			switch a.Vesting.Kind {
			case "continuous":
				genAccs = append(genAccs, vestingtypes.NewContinuousVestingAccountRaw(bva, a.Vesting.Start))
			case "delayed":
				genAccs = append(genAccs, vestingtypes.NewDelayedVestingAccountRaw(bva))
			case "permanent":
				bva.EndTime = 0
				genAccs = append(genAccs, &vestingtypes.PermanentLockedAccount{BaseVestingAccount: bva})
			case "periodic":
				n := int64(len(a.Vesting.Periods))
				var periods vestingtypes.Periods
				remaining := orig
				var total int64
				for i, l := range a.Vesting.Periods {
					var amt sdk.Coins
					if int64(i) == n-1 {
						amt = remaining
					} else {
						for _, c := range orig {
							amt = amt.Add(sdk.NewCoin(c.Denom, c.Amount.QuoRaw(n)))
						}
						remaining = remaining.Sub(amt...)
					}
					periods = append(periods, vestingtypes.Period{Length: l, Amount: amt})
					total += l
				}
				bva.EndTime = a.Vesting.Start + total
				genAccs = append(genAccs, vestingtypes.NewPeriodicVestingAccountRaw(bva, a.Vesting.Start, periods))
			default:
				panic("bad vesting kind " + a.Vesting.Kind)
			}
			// a vesting account must hold at least its original vesting
			if a.Unfunded {
				coins = sdk.NewCoins()
			} else {
				coins = coins.Max(orig)
			}
		} else {
			genAccs = append(genAccs, base)
		}
		addBal(addr.Bytes(), coins)
	}

	// validators: operator accounts must exist
	valTokens := w.valTokens()
	var validators []stakingtypes.Validator
	var delegations []stakingtypes.Delegation
	for i := 0; i < nv; i++ {
		op := ValOperKey(i)
		if !seen[op.Addr] {
			seen[op.Addr] = true
			genAccs = append(genAccs, authtypes.NewBaseAccount(op.Acc(), nil, 0, 0))
			addBal(op.Acc(), sdk.NewCoins(sdk.NewCoin(Denom, sdkmath.NewIntFromBigInt(new(big.Int).Exp(big.NewInt(10), big.NewInt(21), nil)))))
		}
		pkAny, err := codectypes.NewAnyWithValue(ValConsKey(i).PubKey())
		if err != nil {
			panic(err)
		}
		validators = append(validators, stakingtypes.Validator{
			OperatorAddress:   op.Val().String(),
			ConsensusPubkey:   pkAny,
			Status:            stakingtypes.Bonded,
			Tokens:            valTokens,
			DelegatorShares:   sdkmath.LegacyNewDecFromInt(valTokens),
			Description:       stakingtypes.Description{Moniker: fmt.Sprintf("v%d", i)},
			UnbondingTime:     time.Unix(0, 0).UTC(),
			Commission:        stakingtypes.NewCommission(sdkmath.LegacyNewDecWithPrec(1, 1), sdkmath.LegacyNewDecWithPrec(2, 1), sdkmath.LegacyNewDecWithPrec(1, 2)),
			MinSelfDelegation: sdkmath.OneInt(),
		})
		delegations = append(delegations, stakingtypes.NewDelegation(op.Acc().String(), op.Val().String(), sdkmath.LegacyNewDecFromInt(valTokens)))
	}
	bonded := sdk.NewCoins(sdk.NewCoin(Denom, valTokens.MulRaw(int64(nv))))
	balances = append(balances, banktypes.Balance{
		Address: authtypes.NewModuleAddress(stakingtypes.BondedPoolName).String(),
		Coins:   bonded,
	})
	supply = supply.Add(bonded...)

	// contracts
	var evmAccs []evmtypes.GenesisAccount
	for _, c := range w.Contracts {
		addr := common.HexToAddress(c.Addr)
		if seen[addr] {
			panic("duplicate genesis address " + c.Addr)
		}
		seen[addr] = true
		genAccs = append(genAccs, authtypes.NewBaseAccount(addr.Bytes(), nil, 0, c.Nonce))
		coins := coinsOf(c.Coins)
		if b := mustInt(c.Balance); b.IsPositive() {
			coins = coins.Add(sdk.NewCoin(Denom, b))
		}
		addBal(addr.Bytes(), coins)
		ga := evmtypes.GenesisAccount{Address: addr.Hex(), Code: c.Code}
		skeys := make([]string, 0, len(c.Storage))
		for k := range c.Storage {
			skeys = append(skeys, k)
		}
		sort.Strings(skeys)
		for _, k := range skeys {
			ga.Storage = append(ga.Storage, evmtypes.NewState(common.HexToHash(k), common.HexToHash(c.Storage[k])))
		}
		evmAccs = append(evmAccs, ga)
	}

	packed, err := authtypes.PackAccounts(genAccs)
	if err != nil {
		panic(err)
	}
	authGen := authtypes.NewGenesisState(authtypes.DefaultParams(), nil)
	authGen.Accounts = packed
	gs[authtypes.ModuleName] = cdc.MustMarshalJSON(authGen)

	bankGen := banktypes.NewGenesisState(banktypes.DefaultGenesisState().Params, banktypes.SanitizeGenesisBalances(balances), supply, []banktypes.Metadata{}, []banktypes.SendEnabled{})
	gs[banktypes.ModuleName] = cdc.MustMarshalJSON(bankGen)

	sp := stakingtypes.DefaultParams()
	sp.BondDenom = Denom
	sp.UnbondingTime = 100 * time.Second
	sp.MaxEntries = 3
	gs[stakingtypes.ModuleName] = cdc.MustMarshalJSON(stakingtypes.NewGenesisState(sp, validators, delegations))

	var slashGen slashingtypes.GenesisState
	cdc.MustUnmarshalJSON(gs[slashingtypes.ModuleName], &slashGen)
	slashGen.SigningInfos = nil
	for i := 0; i < nv; i++ {
		ca := sdk.ConsAddress(ValConsAddr(i))
		slashGen.SigningInfos = append(slashGen.SigningInfos, slashingtypes.SigningInfo{
			Address:              ca.String(),
			ValidatorSigningInfo: slashingtypes.NewValidatorSigningInfo(ca, 0, 0, time.Unix(0, 0).UTC(), false, 0),
		})
	}
	gs[slashingtypes.ModuleName] = cdc.MustMarshalJSON(&slashGen)

	var mintGen minttypes.GenesisState
	cdc.MustUnmarshalJSON(gs[minttypes.ModuleName], &mintGen)
	mintGen.Params.MintDenom = Denom
	if w.NoInflation {
		mintGen.Minter.Inflation = sdkmath.LegacyZeroDec()
		mintGen.Params.InflationMin = sdkmath.LegacyZeroDec()
		mintGen.Params.InflationMax = sdkmath.LegacyZeroDec()
		mintGen.Params.InflationRateChange = sdkmath.LegacyZeroDec()
	}
	gs[minttypes.ModuleName] = cdc.MustMarshalJSON(&mintGen)

	evmGen := evmtypes.DefaultGenesisState()
	evmGen.Params.EvmDenom = Denom
	evmGen.Params.EnableCreate = !w.NoCreate
	evmGen.Params.EnableCall = !w.NoCall
	evmGen.Params.ExtraEIPs = w.ExtraEIPs
	evmGen.Accounts = evmAccs
	gs[evmtypes.ModuleName] = cdc.MustMarshalJSON(evmGen)
	if w.GovFast {
		var govGen govv1.GenesisState
		cdc.MustUnmarshalJSON(gs[govtypes.ModuleName], &govGen)
		vp, evp := 2*time.Second, time.Second
		govGen.Params.VotingPeriod, govGen.Params.ExpeditedVotingPeriod = &vp, &evp
		govGen.Params.MinDeposit = sdk.NewCoins(sdk.NewCoin(Denom, sdkmath.NewInt(1)))
		govGen.Params.ExpeditedMinDeposit = sdk.NewCoins(sdk.NewCoin(Denom, sdkmath.NewInt(2)))
		gs[govtypes.ModuleName] = cdc.MustMarshalJSON(&govGen)
	}

	fmGen := feemarkettypes.DefaultGenesisState()
	fmGen.Params.BaseFee = mustInt(w.BaseFee)
	mgp := w.MinGasPrice
	if mgp == "" {
		mgp = "0"
	}
	fmGen.Params.MinGasPrice = sdkmath.LegacyMustNewDecFromStr(mgp)
	gs[feemarkettypes.ModuleName] = cdc.MustMarshalJSON(fmGen)

	var cpcGen cpctypes.GenesisState
	cdc.MustUnmarshalJSON(gs[cpctypes.ModuleName], &cpcGen)
	cpcGen.DeployErc20Native = w.Erc20Native
	cpcGen.DeployStakingContract = w.StakingCpc
	cpcGen.Params.WhitelistedDeployers = nil
	for _, d := range w.Deployers {
		cpcGen.Params.WhitelistedDeployers = append(cpcGen.Params.WhitelistedDeployers, K(d).Acc().String())
	}
	gs[cpctypes.ModuleName] = cdc.MustMarshalJSON(&cpcGen)

	return gs
}

// InitChainRequest builds the request for a world.
func (w World) InitChainRequest(appState []byte) *abci.RequestInitChain {
	return &abci.RequestInitChain{
		ChainId:         w.CID(),
		Time:            time.Unix(w.GenesisTime, 0).UTC(),
		InitialHeight:   1,
		Validators:      []abci.ValidatorUpdate{},
		ConsensusParams: w.ConsensusParams(),
		AppStateBytes:   appState,
	}
}

package cometfake

import (
	"context"
	"net"
	"net/http"
	"strings"
	"sync"

	cmtlog "github.com/cometbft/cometbft/libs/log"
	coretypes "github.com/cometbft/cometbft/rpc/core/types"
	rpcclient "github.com/cometbft/cometbft/rpc/jsonrpc/client"
	rpcserver "github.com/cometbft/cometbft/rpc/jsonrpc/server"
	rpctypes "github.com/cometbft/cometbft/rpc/jsonrpc/types"
	cmttypes "github.com/cometbft/cometbft/types"
)

type cmtEventData = cmttypes.TMEventData

// WSNode is an in-process CometBFT websocket endpoint (subscribe / unsubscribe / unsubscribe_all) on a loopback
// port; Publish pushes an event to every connection subscribed to its query, exactly as a node does.
type WSNode struct {
	mu       sync.Mutex
	subs     map[string][]wsSub // query -> subscriptions
	listener net.Listener
	server   *http.Server
	Addr     string
}

type wsSub struct {
	conn rpctypes.WSRPCConnection
	id   rpctypes.JSONRPCIntID
	raw  interface{}
}

// NewWSNode starts the endpoint.
func NewWSNode() (*WSNode, error) {
	n := &WSNode{subs: map[string][]wsSub{}}
	routes := map[string]*rpcserver.RPCFunc{
		"subscribe":       rpcserver.NewWSRPCFunc(n.subscribe, "query"),
		"unsubscribe":     rpcserver.NewWSRPCFunc(n.unsubscribe, "query"),
		"unsubscribe_all": rpcserver.NewWSRPCFunc(n.unsubscribeAll, ""),
	}
	mux := http.NewServeMux()
	wm := rpcserver.NewWebsocketManager(routes)
	wm.SetLogger(cmtlog.NewNopLogger())
	mux.HandleFunc("/websocket", wm.WebsocketHandler)
	l, err := net.Listen("tcp", "127.0.0.1:0")
	if err != nil {
		return nil, err
	}
	n.listener = l
	n.Addr = "tcp://" + l.Addr().String()
	n.server = &http.Server{Handler: mux}
	go func() { _ = n.server.Serve(l) }()
	return n, nil
}

// Client returns a started websocket client connected to the endpoint.
func (n *WSNode) Client() (*rpcclient.WSClient, error) {
	c, err := rpcclient.NewWS(n.Addr, "/websocket")
	if err != nil {
		return nil, err
	}
	c.SetLogger(cmtlog.NewNopLogger())
	if err := c.Start(); err != nil {
		return nil, err
	}
	return c, nil
}

// Close stops the endpoint.
func (n *WSNode) Close() { _ = n.server.Close() }

func (n *WSNode) subscribe(ctx *rpctypes.Context, query string) (*coretypes.ResultSubscribe, error) {
	n.mu.Lock()
	defer n.mu.Unlock()
	for _, s := range n.subs[query] {
		if s.conn == ctx.WSConn {
			// a client whose earlier unsubscribe request never arrived subscribes again: keep one delivery per event
			return &coretypes.ResultSubscribe{}, nil
		}
	}
	n.subs[query] = append(n.subs[query], wsSub{conn: ctx.WSConn, raw: ctx.JSONReq.ID})
	return &coretypes.ResultSubscribe{}, nil
}

func (n *WSNode) unsubscribe(ctx *rpctypes.Context, query string) (*coretypes.ResultUnsubscribe, error) {
	n.mu.Lock()
	defer n.mu.Unlock()
	var keep []wsSub
	for _, s := range n.subs[query] {
		if s.conn != ctx.WSConn {
			keep = append(keep, s)
		}
	}
	n.subs[query] = keep
	return &coretypes.ResultUnsubscribe{}, nil
}

func (n *WSNode) unsubscribeAll(ctx *rpctypes.Context) (*coretypes.ResultUnsubscribe, error) {
	n.mu.Lock()
	defer n.mu.Unlock()
	for q, subs := range n.subs {
		var keep []wsSub
		for _, s := range subs {
			if s.conn != ctx.WSConn {
				keep = append(keep, s)
			}
		}
		n.subs[q] = keep
	}
	return &coretypes.ResultUnsubscribe{}, nil
}

// Publish delivers an event to the subscribers of query. It returns the number of deliveries.
func (n *WSNode) Publish(query string, data interface{}, events map[string][]string) int {
	n.mu.Lock()
	subs := append([]wsSub{}, n.subs[query]...)
	n.mu.Unlock()
	ev := &coretypes.ResultEvent{Query: query, Events: events}
	sent := 0
	for _, s := range subs {
		id, ok := s.raw.(rpctypes.JSONRPCIntID)
		var resp rpctypes.RPCResponse
		if ok {
			resp = rpctypes.NewRPCSuccessResponse(id, resultEvent(ev, data))
		} else if sid, ok := s.raw.(rpctypes.JSONRPCStringID); ok {
			resp = rpctypes.NewRPCSuccessResponse(sid, resultEvent(ev, data))
		} else {
			continue
		}
		if err := s.conn.WriteRPCResponse(context.Background(), resp); err == nil {
			sent++
		}
	}
	return sent
}

// resultEvent fills the typed event data.
func resultEvent(ev *coretypes.ResultEvent, data interface{}) *coretypes.ResultEvent {
	out := *ev
	if d, ok := data.(cmtEventData); ok {
		out.Data = d
	}
	return &out
}

// Queries lists the query strings that currently have subscribers.
func (n *WSNode) Queries() []string {
	n.mu.Lock()
	defer n.mu.Unlock()
	var out []string
	for q, s := range n.subs {
		if len(s) > 0 {
			out = append(out, q)
		}
	}
	return out
}

// PublishMatching publishes to every subscribed query that contains substr (the node matches events against the
// query expression; the harness only distinguishes event classes). It returns the number of deliveries.
func (n *WSNode) PublishMatching(substr string, data interface{}, events map[string][]string) int {
	sent := 0
	for _, q := range n.Queries() {
		if strings.Contains(q, substr) {
			sent += n.Publish(q, data, events)
		}
	}
	return sent
}

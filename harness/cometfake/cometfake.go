// Package cometfake is an in-memory stand-in for the CometBFT RPC client, backed by blocks the harness drove through
// the real application. It serves exactly what the indexer service and the JSON-RPC backend ask a node for.
package cometfake

import (
	"context"
	"fmt"
	"sync"
	"time"

	abci "github.com/cometbft/cometbft/abci/types"
	cmtbytes "github.com/cometbft/cometbft/libs/bytes"
	cmtproto "github.com/cometbft/cometbft/proto/tendermint/types"
	cmtrpcclient "github.com/cometbft/cometbft/rpc/client"
	coretypes "github.com/cometbft/cometbft/rpc/core/types"
	cmttypes "github.com/cometbft/cometbft/types"
)

// Client implements the parts of cmtrpcclient.Client that evermint's services use. Every other method of the embedded
// (nil) interface panics, which the harness reports as "unexpected node API use".
type Client struct {
	cmtrpcclient.Client

	mu        sync.RWMutex
	chainID   string
	query     func(*abci.RequestQuery) (*abci.ResponseQuery, error)
	blocks    map[int64]*coretypes.ResultBlock
	results   map[int64]*coretypes.ResultBlockResults
	byHash    map[string]int64
	latest    int64
	consensus *cmtproto.ConsensusParams
	subs      map[string]chan coretypes.ResultEvent
}

// New creates a client. query routes ABCI queries to the application.
func New(chainID string, cp *cmtproto.ConsensusParams, query func(*abci.RequestQuery) (*abci.ResponseQuery, error)) *Client {
	cpc := *cp
	if cpc.Version == nil {
		cpc.Version = &cmtproto.VersionParams{}
	}
	if cpc.Abci == nil {
		cpc.Abci = &cmtproto.ABCIParams{}
	}
	cp = &cpc
	return &Client{chainID: chainID, query: query, consensus: cp, blocks: map[int64]*coretypes.ResultBlock{}, results: map[int64]*coretypes.ResultBlockResults{},
		byHash: map[string]int64{}, subs: map[string]chan coretypes.ResultEvent{}}
}

var fixedValHash = make([]byte, 32)

// Prepare builds the block for a height; its hash is what the application must be given in FinalizeBlock.
func (c *Client) Prepare(height int64, t time.Time, proposer []byte, txs [][]byte) *cmttypes.Block {
	c.mu.RLock()
	defer c.mu.RUnlock()
	var last cmttypes.BlockID
	if prev, ok := c.blocks[height-1]; ok {
		last = prev.BlockID
	}
	b := &cmttypes.Block{
		Header: cmttypes.Header{ChainID: c.chainID, Height: height, Time: t, LastBlockID: last, ProposerAddress: proposer,
			ValidatorsHash: fixedValHash, NextValidatorsHash: fixedValHash, ConsensusHash: fixedValHash},
		LastCommit: &cmttypes.Commit{Height: height - 1},
	}
	for _, tx := range txs {
		b.Data.Txs = append(b.Data.Txs, cmttypes.Tx(tx))
	}
	b.Header.DataHash = b.Data.Hash()
	return b
}

// Record records an executed block and notifies header subscribers.
func (c *Client) Record(b *cmttypes.Block, res *abci.ResponseFinalizeBlock) {
	c.mu.Lock()
	id := cmttypes.BlockID{Hash: b.Hash()}
	c.blocks[b.Height] = &coretypes.ResultBlock{BlockID: id, Block: b}
	c.results[b.Height] = &coretypes.ResultBlockResults{Height: b.Height, TxsResults: res.TxResults, FinalizeBlockEvents: res.Events,
		ValidatorUpdates: res.ValidatorUpdates, ConsensusParamUpdates: res.ConsensusParamUpdates, AppHash: res.AppHash}
	c.byHash[string(id.Hash)] = b.Height
	if b.Height > c.latest {
		c.latest = b.Height
	}
	subs := make([]chan coretypes.ResultEvent, 0, len(c.subs))
	for _, ch := range c.subs {
		subs = append(subs, ch)
	}
	c.mu.Unlock()
	ev := coretypes.ResultEvent{Query: cmttypes.QueryForEvent(cmttypes.EventNewBlockHeader).String(), Data: cmttypes.EventDataNewBlockHeader{Header: b.Header}}
	for _, ch := range subs {
		select {
		case ch <- ev:
		default:
		}
	}
}

// Latest returns the latest recorded height.
func (c *Client) Latest() int64 {
	c.mu.RLock()
	defer c.mu.RUnlock()
	return c.latest
}

func (c *Client) IsRunning() bool { return true }

func (c *Client) Status(context.Context) (*coretypes.ResultStatus, error) {
	c.mu.RLock()
	defer c.mu.RUnlock()
	st := &coretypes.ResultStatus{}
	st.SyncInfo.LatestBlockHeight = c.latest
	if c.latest > 0 {
		st.SyncInfo.EarliestBlockHeight = 1
		st.SyncInfo.LatestBlockHash = c.blocks[c.latest].BlockID.Hash
		st.SyncInfo.LatestBlockTime = c.blocks[c.latest].Block.Time
	}
	st.NodeInfo.Network = c.chainID
	return st, nil
}

func (c *Client) height(h *int64) (int64, error) {
	if h == nil || *h == 0 {
		if c.latest == 0 {
			return 0, fmt.Errorf("no blocks")
		}
		return c.latest, nil
	}
	if *h < 0 {
		return 0, fmt.Errorf("height must be greater than 0, but got %d", *h)
	}
	if *h > c.latest {
		return 0, fmt.Errorf("height %d must be less than or equal to the current blockchain height %d", *h, c.latest)
	}
	return *h, nil
}

func (c *Client) Block(_ context.Context, h *int64) (*coretypes.ResultBlock, error) {
	c.mu.RLock()
	defer c.mu.RUnlock()
	hh, err := c.height(h)
	if err != nil {
		return nil, err
	}
	b, ok := c.blocks[hh]
	if !ok {
		return nil, fmt.Errorf("block %d not found", hh)
	}
	return b, nil
}

func (c *Client) BlockByHash(_ context.Context, hash []byte) (*coretypes.ResultBlock, error) {
	c.mu.RLock()
	defer c.mu.RUnlock()
	h, ok := c.byHash[string(hash)]
	if !ok {
		// CometBFT answers an unknown hash with an empty result
		return &coretypes.ResultBlock{BlockID: cmttypes.BlockID{}, Block: nil}, nil
	}
	return c.blocks[h], nil
}

func (c *Client) BlockResults(_ context.Context, h *int64) (*coretypes.ResultBlockResults, error) {
	c.mu.RLock()
	defer c.mu.RUnlock()
	hh, err := c.height(h)
	if err != nil {
		return nil, err
	}
	r, ok := c.results[hh]
	if !ok {
		return nil, fmt.Errorf("results of block %d not found", hh)
	}
	return r, nil
}

func (c *Client) Header(ctx context.Context, h *int64) (*coretypes.ResultHeader, error) {
	b, err := c.Block(ctx, h)
	if err != nil {
		return nil, err
	}
	return &coretypes.ResultHeader{Header: &b.Block.Header}, nil
}

func (c *Client) HeaderByHash(ctx context.Context, hash cmtbytes.HexBytes) (*coretypes.ResultHeader, error) {
	b, err := c.BlockByHash(ctx, hash)
	if err != nil || b.Block == nil {
		return &coretypes.ResultHeader{}, err
	}
	return &coretypes.ResultHeader{Header: &b.Block.Header}, nil
}

func (c *Client) ConsensusParams(_ context.Context, h *int64) (*coretypes.ResultConsensusParams, error) {
	c.mu.RLock()
	defer c.mu.RUnlock()
	hh, err := c.height(h)
	if err != nil {
		return nil, err
	}
	return &coretypes.ResultConsensusParams{BlockHeight: hh, ConsensusParams: cmttypes.ConsensusParamsFromProto(*c.consensus)}, nil
}

func (c *Client) ABCIInfo(context.Context) (*coretypes.ResultABCIInfo, error) {
	return &coretypes.ResultABCIInfo{Response: abci.ResponseInfo{LastBlockHeight: c.Latest()}}, nil
}

func (c *Client) ABCIQuery(ctx context.Context, path string, data cmtbytes.HexBytes) (*coretypes.ResultABCIQuery, error) {
	return c.ABCIQueryWithOptions(ctx, path, data, cmtrpcclient.DefaultABCIQueryOptions)
}

func (c *Client) ABCIQueryWithOptions(_ context.Context, path string, data cmtbytes.HexBytes, opts cmtrpcclient.ABCIQueryOptions) (*coretypes.ResultABCIQuery, error) {
	res, err := c.query(&abci.RequestQuery{Path: path, Data: data, Height: opts.Height, Prove: opts.Prove})
	if err != nil {
		return nil, err
	}
	return &coretypes.ResultABCIQuery{Response: *res}, nil
}

func (c *Client) Subscribe(_ context.Context, subscriber, query string, _ ...int) (<-chan coretypes.ResultEvent, error) {
	c.mu.Lock()
	defer c.mu.Unlock()
	ch := make(chan coretypes.ResultEvent, 64)
	c.subs[subscriber+"/"+query] = ch
	return ch, nil
}

func (c *Client) Unsubscribe(_ context.Context, subscriber, query string) error {
	c.mu.Lock()
	defer c.mu.Unlock()
	delete(c.subs, subscriber+"/"+query)
	return nil
}

func (c *Client) UnsubscribeAll(_ context.Context, subscriber string) error {
	c.mu.Lock()
	defer c.mu.Unlock()
	for k := range c.subs {
		if len(k) > len(subscriber) && k[:len(subscriber)+1] == subscriber+"/" {
			delete(c.subs, k)
		}
	}
	return nil
}

func (c *Client) NumUnconfirmedTxs(context.Context) (*coretypes.ResultUnconfirmedTxs, error) {
	return &coretypes.ResultUnconfirmedTxs{}, nil
}

func (c *Client) UnconfirmedTxs(context.Context, *int) (*coretypes.ResultUnconfirmedTxs, error) {
	return &coretypes.ResultUnconfirmedTxs{}, nil
}

// View is the same node seen by another consumer: subscriptions of different views never collide, even when the
// consumers use the same subscriber name (two service instances of the same kind).
type View struct {
	*Client
	prefix string
}

var viewSeq int

// View returns a new consumer-specific view of the node.
func (c *Client) View() *View {
	c.mu.Lock()
	defer c.mu.Unlock()
	viewSeq++
	return &View{Client: c, prefix: fmt.Sprintf("view%d:", viewSeq)}
}

func (v *View) Subscribe(ctx context.Context, subscriber, query string, n ...int) (<-chan coretypes.ResultEvent, error) {
	return v.Client.Subscribe(ctx, v.prefix+subscriber, query, n...)
}

func (v *View) Unsubscribe(ctx context.Context, subscriber, query string) error {
	return v.Client.Unsubscribe(ctx, v.prefix+subscriber, query)
}

func (v *View) UnsubscribeAll(ctx context.Context, subscriber string) error {
	return v.Client.UnsubscribeAll(ctx, v.prefix+subscriber)
}

// Package stats collects what a run actually covered and writes it for the driver.
package stats

import (
	"encoding/json"
	"hash/fnv"
	"os"
	"sort"
	"sync"
)

const bitmapBits = 1 << 24

// Collector accumulates per-process statistics.
type Collector struct {
	mu          sync.Mutex
	Evaluations int64            `json:"evaluations"`
	NonTrivial  int64            `json:"nontrivial_total"`
	Labels      map[string]int64 `json:"labels"`
	Known       map[string]int64 `json:"known"`
	KnownWhat   map[string]string `json:"known_what"`
	Excluded    map[string]int64 `json:"excluded"`
	Samples     []json.RawMessage `json:"samples"`
	Extra       map[string]int64 `json:"extra"`
	bitmap      []uint64
	sampleKinds map[string]int
}

var c = &Collector{
	Labels: map[string]int64{}, Known: map[string]int64{}, KnownWhat: map[string]string{},
	Excluded: map[string]int64{}, Extra: map[string]int64{}, sampleKinds: map[string]int{},
}

// Eval counts one executed case.
func Eval() { c.mu.Lock(); c.Evaluations++; c.mu.Unlock() }

// Label counts a classification label.
func Label(name string) { c.mu.Lock(); c.Labels[name]++; c.mu.Unlock() }

// Extra adds to a named counter (e.g. steps, crash points).
func Extra(name string, n int64) { c.mu.Lock(); c.Extra[name] += n; c.mu.Unlock() }

// Excluded counts a case or sub-case outside the sound domain.
func Excluded(reason string) { c.mu.Lock(); c.Excluded[reason]++; c.mu.Unlock() }

// KnownHit counts a deviation attributed to a listed open finding.
func KnownHit(key, what string) {
	c.mu.Lock()
	c.Known[key]++
	if _, ok := c.KnownWhat[key]; !ok {
		c.KnownWhat[key] = what
	}
	c.mu.Unlock()
}

// Hash hashes a byte string.
func Hash(b []byte) uint64 {
	h := fnv.New64a()
	h.Write(b)
	return h.Sum64()
}

// NonTrivialCase records a non-trivial case by hash of its serialised form.
func NonTrivialCase(h uint64) {
	c.mu.Lock()
	defer c.mu.Unlock()
	c.NonTrivial++
	if c.bitmap == nil {
		c.bitmap = make([]uint64, bitmapBits/64)
	}
	// mix
	h ^= h >> 33
	h *= 0xff51afd7ed558ccd
	h ^= h >> 33
	i := h % bitmapBits
	c.bitmap[i/64] |= 1 << (i % 64)
}

// Sample stores up to perKind samples of a kind.
func Sample(kind string, v interface{}, perKind int) {
	c.mu.Lock()
	defer c.mu.Unlock()
	if c.sampleKinds[kind] >= perKind {
		return
	}
	bz, err := json.Marshal(v)
	if err != nil || len(bz) > 20000 {
		return
	}
	c.sampleKinds[kind]++
	wrapped, _ := json.Marshal(map[string]json.RawMessage{kind: bz})
	c.Samples = append(c.Samples, wrapped)
}

// Flush writes stats to $VERIF_STATS_OUT (JSON) and the bitmap to $VERIF_STATS_OUT.bits.
func Flush() {
	out := os.Getenv("VERIF_STATS_OUT")
	if out == "" {
		return
	}
	c.mu.Lock()
	defer c.mu.Unlock()
	bz, _ := json.Marshal(c)
	_ = os.WriteFile(out, bz, 0o644)
	if c.bitmap != nil {
		// sparse list of set bit indices (sorted)
		var idx []uint32
		for w, v := range c.bitmap {
			for v != 0 {
				b := v & -v
				bit := 0
				for (b >> uint(bit)) != 1 {
					bit++
				}
				idx = append(idx, uint32(w*64+bit))
				v &^= b
			}
		}
		sort.Slice(idx, func(i, j int) bool { return idx[i] < idx[j] })
		buf := make([]byte, 4*len(idx))
		for i, x := range idx {
			buf[4*i] = byte(x)
			buf[4*i+1] = byte(x >> 8)
			buf[4*i+2] = byte(x >> 16)
			buf[4*i+3] = byte(x >> 24)
		}
		_ = os.WriteFile(out+".bits", buf, 0o644)
	}
}

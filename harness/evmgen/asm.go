// Package evmgen builds EVM bytecode from small JSON-serialisable programs.
package evmgen

import (
	"encoding/hex"
	"math/big"
	"strings"
)

// Opcodes used by the assembler.
const (
	STOP           = 0x00
	ADD            = 0x01
	MUL            = 0x02
	SUB            = 0x03
	DIV            = 0x04
	LT             = 0x10
	GT             = 0x11
	EQ             = 0x14
	ISZERO         = 0x15
	AND            = 0x16
	OR             = 0x17
	XOR            = 0x18
	NOT            = 0x19
	SHL            = 0x1b
	SHR            = 0x1c
	KECCAK256      = 0x20
	ADDRESS        = 0x30
	BALANCE        = 0x31
	ORIGIN         = 0x32
	CALLER         = 0x33
	CALLVALUE      = 0x34
	CALLDATALOAD   = 0x35
	CALLDATASIZE   = 0x36
	CALLDATACOPY   = 0x37
	CODESIZE       = 0x38
	CODECOPY       = 0x39
	GASPRICE       = 0x3a
	EXTCODESIZE    = 0x3b
	EXTCODECOPY    = 0x3c
	RETURNDATASIZE = 0x3d
	RETURNDATACOPY = 0x3e
	EXTCODEHASH    = 0x3f
	BLOCKHASH      = 0x40
	COINBASE       = 0x41
	TIMESTAMP      = 0x42
	NUMBER         = 0x43
	DIFFICULTY     = 0x44
	GASLIMIT       = 0x45
	CHAINID        = 0x46
	SELFBALANCE    = 0x47
	BASEFEE        = 0x48
	POP            = 0x50
	MLOAD          = 0x51
	MSTORE         = 0x52
	MSTORE8        = 0x53
	SLOAD          = 0x54
	SSTORE         = 0x55
	JUMP           = 0x56
	JUMPI          = 0x57
	PC             = 0x58
	MSIZE          = 0x59
	GAS            = 0x5a
	JUMPDEST       = 0x5b
	PUSH1          = 0x60
	PUSH2          = 0x61
	PUSH32         = 0x7f
	DUP1           = 0x80
	DUP2           = 0x81
	DUP3           = 0x82
	SWAP1          = 0x90
	SWAP2          = 0x91
	LOG0           = 0xa0
	CREATE         = 0xf0
	CALL           = 0xf1
	CALLCODE       = 0xf2
	RETURN         = 0xf3
	DELEGATECALL   = 0xf4
	CREATE2        = 0xf5
	STATICCALL     = 0xfa
	REVERT         = 0xfd
	INVALID        = 0xfe
	SELFDESTRUCT   = 0xff
)

// Asm is a tiny assembler with 2-byte labels.
type Asm struct {
	code   []byte
	labels map[string]int
	fixups map[int]string
}

func NewAsm() *Asm { return &Asm{labels: map[string]int{}, fixups: map[int]string{}} }

func (a *Asm) Op(ops ...byte) *Asm { a.code = append(a.code, ops...); return a }

// Push pushes a big-endian value with the minimal PUSHn (PUSH1 0 for zero).
func (a *Asm) Push(v *big.Int) *Asm {
	b := v.Bytes()
	if len(b) == 0 {
		b = []byte{0}
	}
	if len(b) > 32 {
		b = b[len(b)-32:]
	}
	a.code = append(a.code, byte(PUSH1+len(b)-1))
	a.code = append(a.code, b...)
	return a
}

func (a *Asm) PushU(v uint64) *Asm { return a.Push(new(big.Int).SetUint64(v)) }

// PushBytes pushes raw bytes (<=32) as one word.
func (a *Asm) PushBytes(b []byte) *Asm {
	if len(b) == 0 {
		b = []byte{0}
	}
	if len(b) > 32 {
		b = b[:32]
	}
	a.code = append(a.code, byte(PUSH1+len(b)-1))
	a.code = append(a.code, b...)
	return a
}

// PushHex pushes a hex literal.
func (a *Asm) PushHex(h string) *Asm {
	h = strings.TrimPrefix(h, "0x")
	if len(h)%2 == 1 {
		h = "0" + h
	}
	b, err := hex.DecodeString(h)
	if err != nil {
		panic(err)
	}
	return a.PushBytes(b)
}

// PushLabel pushes the (later resolved) offset of a label with PUSH2.
func (a *Asm) PushLabel(name string) *Asm {
	a.code = append(a.code, PUSH2, 0, 0)
	a.fixups[len(a.code)-2] = name
	return a
}

// Label places a JUMPDEST.
func (a *Asm) Label(name string) *Asm {
	a.labels[name] = len(a.code)
	a.code = append(a.code, JUMPDEST)
	return a
}

func (a *Asm) Len() int { return len(a.code) }

// Bytes resolves labels and returns the code.
func (a *Asm) Bytes() []byte {
	out := append([]byte{}, a.code...)
	for pos, name := range a.fixups {
		off, ok := a.labels[name]
		if !ok {
			panic("undefined label " + name)
		}
		out[pos] = byte(off >> 8)
		out[pos+1] = byte(off)
	}
	return out
}

// MstoreBytes writes data into memory at offset off (word by word).
func (a *Asm) MstoreBytes(off uint64, data []byte) *Asm {
	for i := 0; i < len(data); i += 32 {
		var w [32]byte
		copy(w[:], data[i:])
		a.PushBytes(w[:]).PushU(off + uint64(i)).Op(MSTORE)
	}
	return a
}

// InitCodeFor returns init code that deploys the given runtime code.
func InitCodeFor(runtime []byte) []byte {
	a := NewAsm()
	// CODECOPY(0, offset, len); RETURN(0, len)
	a.PushU(uint64(len(runtime))).PushLabel("data").PushU(0).Op(CODECOPY)
	a.PushU(uint64(len(runtime))).PushU(0).Op(RETURN)
	// the "label" here is a data offset, not a JUMPDEST: place manually
	a.labels["data"] = len(a.code)
	a.code = append(a.code, runtime...)
	return a.Bytes()
}

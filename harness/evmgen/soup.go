package evmgen

import (
	"encoding/hex"
	"fmt"
	"math/big"
	"strconv"
	"strings"

	"pgregory.net/rapid"
)

// Stmt is one stack-neutral statement of a soup program.
type Stmt struct {
	Op   string `json:"op"`
	A    string `json:"a,omitempty"`    // address (hex) / slot (decimal) depending on op
	B    string `json:"b,omitempty"`    // value (hex word or decimal amount)
	N    uint64 `json:"n,omitempty"`    // count / gas / size
	M    uint64 `json:"m,omitempty"`    // second count
	Sink string `json:"sink,omitempty"` // "" pop | "s<slot>" sstore | "log" log0
	Data string `json:"data,omitempty"` // hex calldata / init code
	Sub  []Stmt `json:"sub,omitempty"`
}

// Program is a list of statements; execution falls off the end into STOP.
type Program []Stmt

type compiler struct {
	a   *Asm
	lbl int
}

func (c *compiler) label() string { c.lbl++; return "L" + strconv.Itoa(c.lbl) }

func bigDec(s string) *big.Int {
	if s == "" {
		return new(big.Int)
	}
	if strings.HasPrefix(s, "0x") {
		b, ok := new(big.Int).SetString(s[2:], 16)
		if !ok {
			panic("bad hex " + s)
		}
		return b
	}
	b, ok := new(big.Int).SetString(s, 10)
	if !ok {
		panic("bad number " + s)
	}
	return b
}

func unhex(s string) []byte {
	s = strings.TrimPrefix(s, "0x")
	b, err := hex.DecodeString(s)
	if err != nil {
		panic(err)
	}
	return b
}

func (c *compiler) sink(s string) {
	a := c.a
	switch {
	case s == "":
		a.Op(POP)
	case s == "log":
		a.PushU(0).Op(MSTORE).PushU(32).PushU(0).Op(LOG0)
	case strings.HasPrefix(s, "s"):
		n, err := strconv.ParseUint(s[1:], 10, 64)
		if err != nil {
			panic("bad sink " + s)
		}
		a.PushU(n).Op(SSTORE)
	default:
		panic("bad sink " + s)
	}
}

var ctxOps = map[string]byte{
	"NUMBER": NUMBER, "TIMESTAMP": TIMESTAMP, "COINBASE": COINBASE, "BASEFEE": BASEFEE, "GASLIMIT": GASLIMIT,
	"CHAINID": CHAINID, "ORIGIN": ORIGIN, "CALLER": CALLER, "CALLVALUE": CALLVALUE, "GASPRICE": GASPRICE,
	"ADDRESS": ADDRESS, "CODESIZE": CODESIZE, "DIFFICULTY": DIFFICULTY, "SELFBALANCE": SELFBALANCE,
	"GAS": GAS, "CALLDATASIZE": CALLDATASIZE, "RETURNDATASIZE": RETURNDATASIZE, "MSIZE": MSIZE, "PC": PC,
}

func (c *compiler) stmts(p []Stmt) {
	for _, s := range p {
		c.stmt(s)
	}
}

func (c *compiler) stmt(s Stmt) {
	a := c.a
	switch s.Op {
	case "sstore":
		a.Push(bigDec(s.B)).Push(bigDec(s.A)).Op(SSTORE)
	case "sload":
		a.Push(bigDec(s.A)).Op(SLOAD)
		c.sink(s.Sink)
	case "sinc":
		a.Push(bigDec(s.A)).Op(SLOAD).PushU(1).Op(ADD).Push(bigDec(s.A)).Op(SSTORE)
	case "log":
		// memory word 0 := N^M marker, then LOGn with synthetic topics
		a.PushU(s.N*1000 + s.M).PushU(0).Op(MSTORE)
		for i := uint64(0); i < s.N && i < 4; i++ {
			a.PushU(0xa0 + i + s.M)
		}
		a.PushU(s.M).PushU(0).Op(byte(LOG0 + min64(s.N, 4)))
	case "balance":
		a.PushHex(s.A).Op(BALANCE)
		c.sink(s.Sink)
	case "extcodesize":
		a.PushHex(s.A).Op(EXTCODESIZE)
		c.sink(s.Sink)
	case "extcodehash":
		a.PushHex(s.A).Op(EXTCODEHASH)
		c.sink(s.Sink)
	case "extcodecopy":
		a.PushU(32).PushU(0).PushU(0).PushHex(s.A).Op(EXTCODECOPY)
		a.PushU(0).Op(MLOAD)
		c.sink(s.Sink)
	case "ctx":
		op, ok := ctxOps[s.A]
		if !ok {
			panic("bad ctx op " + s.A)
		}
		a.Op(op)
		c.sink(s.Sink)
	case "blockhash":
		// BLOCKHASH(NUMBER - n)
		a.PushU(s.N).Op(NUMBER).Op(SUB).Op(BLOCKHASH)
		c.sink(s.Sink)
	case "calldataload":
		a.PushU(s.N).Op(CALLDATALOAD)
		c.sink(s.Sink)
	case "keccak":
		a.PushU(s.M).PushU(0).Op(KECCAK256)
		c.sink(s.Sink)
	case "mstore":
		a.Push(bigDec(s.B)).PushU(s.N).Op(MSTORE)
	case "call", "callcode", "delegatecall", "staticcall":
		data := unhex(s.Data)
		a.MstoreBytes(0, data)
		// out size, out off, in size, in off, [value], addr, gas
		a.PushU(0).PushU(0).PushU(uint64(len(data))).PushU(0)
		if s.Op == "call" || s.Op == "callcode" {
			a.Push(bigDec(s.B))
		}
		a.PushHex(s.A)
		if s.N == 0 {
			a.Op(GAS)
		} else {
			a.PushU(s.N)
		}
		switch s.Op {
		case "call":
			a.Op(CALL)
		case "callcode":
			a.Op(CALLCODE)
		case "delegatecall":
			a.Op(DELEGATECALL)
		case "staticcall":
			a.Op(STATICCALL)
		}
		c.sink(s.Sink)
		if s.M == 1 { // also record return data size and first word
			a.Op(RETURNDATASIZE)
			c.sink("log")
		}
	case "callret":
		// like call but copies up to N bytes of return data to memory 0 and logs them
		data := unhex(s.Data)
		a.MstoreBytes(0, data)
		a.PushU(s.N).PushU(0).PushU(uint64(len(data))).PushU(0).Push(bigDec(s.B)).PushHex(s.A).Op(GAS).Op(CALL)
		c.sink(s.Sink)
		a.PushU(s.N).PushU(0).Op(LOG0)
	case "create", "create2":
		init := unhex(s.Data)
		a.MstoreBytes(0, init)
		if s.Op == "create2" {
			a.PushU(s.N)
		}
		a.PushU(uint64(len(init))).PushU(0).Push(bigDec(s.B))
		if s.Op == "create2" {
			a.Op(CREATE2)
		} else {
			a.Op(CREATE)
		}
		c.sink(s.Sink)
	case "selfdestruct":
		a.PushHex(s.A).Op(SELFDESTRUCT)
	case "revert":
		a.PushU(s.N).PushU(0).Op(REVERT)
	case "return":
		a.PushU(s.N).PushU(0).Op(RETURN)
	case "invalid":
		a.Op(INVALID)
	case "stop":
		a.Op(STOP)
	case "burn":
		l := c.label()
		a.PushU(s.N + 1).Label(l).PushU(1).Op(SWAP1).Op(SUB).Op(DUP1).PushLabel(l).Op(JUMPI).Op(POP)
	case "ifgas":
		// if GAS > N then Sub
		l := c.label()
		a.PushU(s.N).Op(GAS).Op(GT).Op(ISZERO).PushLabel(l).Op(JUMPI)
		c.stmts(s.Sub)
		a.Label(l)
	case "ifcd":
		// if byte0(calldata) == N then Sub
		l := c.label()
		a.PushU(0).Op(CALLDATALOAD).PushU(248).Op(SHR).PushU(s.N).Op(EQ).Op(ISZERO).PushLabel(l).Op(JUMPI)
		c.stmts(s.Sub)
		a.Label(l)
	case "ifslot":
		l := c.label()
		a.Push(bigDec(s.A)).Op(SLOAD).Op(ISZERO).PushLabel(l).Op(JUMPI)
		c.stmts(s.Sub)
		a.Label(l)
	case "raw":
		a.Op(unhex(s.Data)...)
	default:
		panic("unknown stmt op " + s.Op)
	}
}

func min64(a, b uint64) uint64 {
	if a < b {
		return a
	}
	return b
}

// Compile turns a program into runtime bytecode.
func Compile(p Program) []byte {
	c := &compiler{a: NewAsm()}
	c.stmts(p)
	c.a.Op(STOP)
	return c.a.Bytes()
}

// CompileHex returns hex bytecode.
func CompileHex(p Program) string { return hex.EncodeToString(Compile(p)) }

// ----------------------------------------------------------------------------
// generator

// GenCfg steers the soup generator.
type GenCfg struct {
	Addrs               []string // address operands for BALANCE/EXT*/selfdestruct beneficiaries
	CallTargets         []string // callee addresses
	NoCtx               bool     // no block-context / origin / gasprice reads
	NoGasRead           bool     // no GAS opcode value escaping into state
	NoCreate            bool
	NoDestruct          bool
	NoValue             bool // calls carry no value
	NoNativePrecompiles bool // never call Ethereum's own precompiles
	MaxStmts            int
	Depth               int // nesting budget for init code programs
}

func hexWord(t *rapid.T, label string) string {
	k := rapid.IntRange(0, 5).Draw(t, label+"k")
	switch k {
	case 0:
		return "0x0"
	case 1:
		return "0x1"
	case 2:
		return "0x" + strings.Repeat("ff", 32)
	default:
		return fmt.Sprintf("0x%x", rapid.Uint64Range(2, 1<<40).Draw(t, label))
	}
}

func genSink(t *rapid.T) string {
	switch rapid.IntRange(0, 3).Draw(t, "sink") {
	case 0:
		return ""
	case 1:
		return "log"
	default:
		return "s" + strconv.Itoa(rapid.IntRange(0, 7).Draw(t, "sinkslot"))
	}
}

func pick(t *rapid.T, label string, xs []string) string {
	return xs[rapid.IntRange(0, len(xs)-1).Draw(t, label)]
}

var ctxSafe = []string{"ADDRESS", "CODESIZE", "CALLER", "CALLVALUE", "CALLDATASIZE", "RETURNDATASIZE", "MSIZE", "PC", "SELFBALANCE"}
var ctxBlock = []string{"NUMBER", "TIMESTAMP", "COINBASE", "BASEFEE", "GASLIMIT", "CHAINID", "ORIGIN", "GASPRICE", "DIFFICULTY"}

// GenInit generates init code (hex) for CREATE/CREATE2.
func GenInit(t *rapid.T, cfg GenCfg) string {
	sub := cfg
	sub.Depth = cfg.Depth - 1
	sub.MaxStmts = 4
	kind := rapid.IntRange(0, 9).Draw(t, "initkind")
	if kind == 2 && cfg.NoDestruct {
		kind = 0
	}
	switch kind {
	case 0: // reverting init
		return CompileHex(Program{{Op: "sstore", A: "1", B: "0x7"}, {Op: "revert", N: 0}})
	case 1: // stores then returns empty code
		return CompileHex(Program{{Op: "sstore", A: "1", B: "0x7"}, {Op: "log", N: 1, M: 1}, {Op: "return", N: 0}})
	case 2: // self-destructs during init
		return CompileHex(Program{{Op: "sstore", A: "2", B: "0x9"}, {Op: "selfdestruct", A: pick(t, "ben", cfg.Addrs)}})
	case 3: // returns code starting with 0xEF (EIP-3541)
		return CompileHex(Program{{Op: "mstore", N: 0, B: "0x" + "ef" + strings.Repeat("00", 31)}, {Op: "return", N: 1}})
	case 4: // returns oversized code
		return CompileHex(Program{{Op: "return", N: 24577}})
	case 5: // invalid
		return CompileHex(Program{{Op: "invalid"}})
	default:
		rt := GenProgram(t, sub)
		pre := Program{}
		if rapid.Bool().Draw(t, "initstore") {
			pre = append(pre, Stmt{Op: "sstore", A: "3", B: hexWord(t, "iv")})
		}
		// init = pre ; then deploy runtime
		c := &compiler{a: NewAsm()}
		c.stmts(pre)
		preCode := c.a.Bytes()
		runtime := Compile(rt)
		a := NewAsm()
		a.Op(preCode...)
		a.PushU(uint64(len(runtime))).PushLabel("data").PushU(0).Op(CODECOPY)
		a.PushU(uint64(len(runtime))).PushU(0).Op(RETURN)
		a.labels["data"] = len(a.code)
		a.code = append(a.code, runtime...)
		return hex.EncodeToString(a.Bytes())
	}
}

func genValue(t *rapid.T, cfg GenCfg) string {
	if cfg.NoValue {
		return "0"
	}
	switch rapid.IntRange(0, 4).Draw(t, "valk") {
	case 0, 1:
		return "0"
	case 2:
		return "1"
	case 3:
		return strconv.FormatUint(rapid.Uint64Range(2, 1000000).Draw(t, "val"), 10)
	default:
		return "1000000000000000000000000000" // more than anyone has
	}
}

func genGas(t *rapid.T) uint64 {
	switch rapid.IntRange(0, 5).Draw(t, "gask") {
	case 0, 1, 2:
		return 0 // all
	case 3:
		return rapid.Uint64Range(1, 3000).Draw(t, "gastiny")
	case 4:
		return rapid.Uint64Range(3000, 60000).Draw(t, "gasmid")
	default:
		return 1 << 40 // more than available: 63/64 cap
	}
}

// GenStmt generates one statement.
func GenStmt(t *rapid.T, cfg GenCfg, terminal bool) Stmt {
	type g func() Stmt
	slot := func(l string) string { return strconv.Itoa(rapid.IntRange(0, 7).Draw(t, l)) }
	opts := []g{
		func() Stmt { return Stmt{Op: "sstore", A: slot("slot"), B: hexWord(t, "v")} },
		func() Stmt { return Stmt{Op: "sstore", A: slot("slot"), B: "0x0"} },
		func() Stmt { return Stmt{Op: "sload", A: slot("slot"), Sink: genSink(t)} },
		func() Stmt { return Stmt{Op: "sinc", A: slot("slot")} },
		func() Stmt {
			return Stmt{Op: "log", N: uint64(rapid.IntRange(0, 4).Draw(t, "topics")), M: uint64(rapid.IntRange(0, 40).Draw(t, "loglen"))}
		},
		func() Stmt {
			return Stmt{Op: pick(t, "ext", []string{"balance", "extcodesize", "extcodehash", "extcodecopy"}), A: pick(t, "addr", cfg.Addrs), Sink: genSink(t)}
		},
		func() Stmt { return Stmt{Op: "ctx", A: pick(t, "ctxsafe", ctxSafe), Sink: genSink(t)} },
		func() Stmt {
			return Stmt{Op: "keccak", M: uint64(rapid.IntRange(0, 64).Draw(t, "klen")), Sink: genSink(t)}
		},
		func() Stmt { return Stmt{Op: "burn", N: uint64(rapid.IntRange(1, 300).Draw(t, "iters"))} },
		func() Stmt {
			return Stmt{Op: "calldataload", N: uint64(rapid.IntRange(0, 40).Draw(t, "cdoff")), Sink: genSink(t)}
		},
	}
	if len(cfg.CallTargets) > 0 {
		call := func() Stmt {
			cd := ""
			if rapid.Bool().Draw(t, "hascd") {
				cd = fmt.Sprintf("%02x", rapid.IntRange(0, 3).Draw(t, "cd0"))
			}
			op := pick(t, "callop", []string{"call", "call", "delegatecall", "staticcall", "callcode"})
			callee := pick(t, "callee", cfg.CallTargets)
			if !cfg.NoNativePrecompiles && rapid.IntRange(0, 9).Draw(t, "nativepc") == 0 {
				// Ethereum's own precompiles (ecrecover, sha256, identity, blake2f, and the first unassigned address)
				callee = pick(t, "nativecallee", []string{"0x0000000000000000000000000000000000000001", "0x0000000000000000000000000000000000000002", "0x0000000000000000000000000000000000000004", "0x0000000000000000000000000000000000000009", "0x000000000000000000000000000000000000000a"})
				cd = hex.EncodeToString(rapid.SliceOfN(rapid.Byte(), 0, 70).Draw(t, "nativecd"))
			}
			return Stmt{Op: op, A: callee, B: genValue(t, cfg), N: genGas(t), Sink: genSink(t), Data: cd, M: uint64(rapid.IntRange(0, 1).Draw(t, "retsz"))}
		}
		opts = append(opts, call, call, call)
	}
	if !cfg.NoCtx {
		opts = append(opts,
			func() Stmt { return Stmt{Op: "ctx", A: pick(t, "ctxblock", ctxBlock), Sink: genSink(t)} },
			func() Stmt {
				return Stmt{Op: "blockhash", N: uint64(rapid.IntRange(0, 3).Draw(t, "bhback")), Sink: genSink(t)}
			})
	}
	if !cfg.NoGasRead {
		opts = append(opts, func() Stmt { return Stmt{Op: "ctx", A: "GAS", Sink: genSink(t)} })
	}
	if !cfg.NoCreate && cfg.Depth > 0 {
		opts = append(opts, func() Stmt {
			op := pick(t, "createop", []string{"create", "create2"})
			return Stmt{Op: op, B: genValue(t, cfg), N: uint64(rapid.IntRange(0, 2).Draw(t, "salt")), Data: GenInit(t, cfg), Sink: genSink(t)}
		})
	}
	if cfg.Depth > 0 {
		sub := cfg
		sub.Depth--
		sub.MaxStmts = 3
		opts = append(opts,
			func() Stmt {
				return Stmt{Op: "ifgas", N: rapid.Uint64Range(100, 200000).Draw(t, "gasthr"), Sub: GenProgram(t, sub)}
			},
			func() Stmt {
				return Stmt{Op: "ifcd", N: uint64(rapid.IntRange(0, 3).Draw(t, "cdsel")), Sub: GenProgram(t, sub)}
			},
			func() Stmt { return Stmt{Op: "ifslot", A: slot("condslot"), Sub: GenProgram(t, sub)} },
		)
	}
	if terminal {
		term := []g{
			func() Stmt { return Stmt{Op: "revert", N: uint64(rapid.IntRange(0, 40).Draw(t, "rlen"))} },
			func() Stmt { return Stmt{Op: "return", N: uint64(rapid.IntRange(0, 40).Draw(t, "rlen"))} },
			func() Stmt { return Stmt{Op: "invalid"} },
			func() Stmt { return Stmt{Op: "stop"} },
		}
		if !cfg.NoDestruct {
			term = append(term, func() Stmt { return Stmt{Op: "selfdestruct", A: pick(t, "ben", cfg.Addrs)} })
		}
		return term[rapid.IntRange(0, len(term)-1).Draw(t, "term")]()
	}
	return opts[rapid.IntRange(0, len(opts)-1).Draw(t, "stmt")]()
}

// GenProgram generates a program of up to cfg.MaxStmts statements, optionally ending in a terminal.
func GenProgram(t *rapid.T, cfg GenCfg) Program {
	max := cfg.MaxStmts
	if max <= 0 {
		max = 6
	}
	n := rapid.IntRange(0, max).Draw(t, "nstmts")
	var p Program
	for i := 0; i < n; i++ {
		p = append(p, GenStmt(t, cfg, false))
	}
	if rapid.IntRange(0, 2).Draw(t, "hasterm") == 0 {
		p = append(p, GenStmt(t, cfg, true))
	}
	return p
}

// GenReentrant generates a program built around one pattern that plain soup programs produce only rarely: the
// outer activation touches a few storage slots, then enters a frame that works on the *same* storage (a call back
// into itself, or a DELEGATECALL/CALLCODE of a pool contract) which touches other slots and ends in a generated
// terminal (return, stop, revert, invalid, out of gas), and finally the outer activation touches those slots again.
// Everything a reverted frame may leave behind (warm slots, refunds, dirty storage, logs) becomes visible in the
// outer frame's gas and results. The selector byte (first call-data byte) steers the inner activation.
func GenReentrant(t *rapid.T, cfg GenCfg, self string) Program {
	sel := uint64(rapid.IntRange(1, 3).Draw(t, "re_sel"))
	slot := func(l string) string { return strconv.Itoa(rapid.IntRange(0, 3).Draw(t, l)) }
	storage := func(l string) Stmt {
		switch rapid.IntRange(0, 4).Draw(t, l+"k") {
		case 0:
			return Stmt{Op: "sstore", A: slot(l + "s"), B: hexWord(t, l+"v")}
		case 1:
			return Stmt{Op: "sstore", A: slot(l + "s"), B: "0x0"}
		case 2:
			return Stmt{Op: "sinc", A: slot(l + "s")}
		default:
			return Stmt{Op: "sload", A: slot(l + "s"), Sink: genSink(t)}
		}
	}
	var inner Program
	for i, n := 0, rapid.IntRange(1, 3).Draw(t, "re_ninner"); i < n; i++ {
		inner = append(inner, storage(fmt.Sprintf("re_in%d", i)))
	}
	if rapid.IntRange(0, 3).Draw(t, "re_innerlog") == 0 {
		inner = append(inner, Stmt{Op: "log", N: 1, M: 3})
	}
	if len(cfg.CallTargets) > 0 && rapid.IntRange(0, 3).Draw(t, "re_innercall") == 0 {
		inner = append(inner, Stmt{Op: "call", A: pick(t, "re_innercallee", cfg.CallTargets), B: "0", N: genGas(t), Sink: genSink(t)})
	}
	switch rapid.IntRange(0, 5).Draw(t, "re_term") {
	case 0, 1:
		inner = append(inner, Stmt{Op: "revert", N: uint64(rapid.IntRange(0, 32).Draw(t, "re_rlen"))})
	case 2:
		inner = append(inner, Stmt{Op: "invalid"})
	case 3:
		inner = append(inner, Stmt{Op: "burn", N: 1 << 30}, Stmt{Op: "stop"}) // runs out of gas
	case 4:
		inner = append(inner, Stmt{Op: "return", N: uint64(rapid.IntRange(0, 32).Draw(t, "re_retlen"))})
	default:
		inner = append(inner, Stmt{Op: "stop"})
	}
	p := Program{{Op: "ifcd", N: sel, Sub: inner}}
	for i, n := 0, rapid.IntRange(0, 2).Draw(t, "re_npre"); i < n; i++ {
		p = append(p, storage(fmt.Sprintf("re_pre%d", i)))
	}
	op := pick(t, "re_op", []string{"call", "call", "delegatecall", "callcode", "staticcall"})
	callee := self
	if (op == "delegatecall" || op == "callcode") && len(cfg.CallTargets) > 0 && rapid.Bool().Draw(t, "re_other") {
		callee = pick(t, "re_callee", cfg.CallTargets)
	}
	p = append(p, Stmt{Op: op, A: callee, B: "0", N: genGas(t), Sink: genSink(t), Data: fmt.Sprintf("%02x", sel), M: uint64(rapid.IntRange(0, 1).Draw(t, "re_retsz"))})
	for i, n := 0, rapid.IntRange(1, 3).Draw(t, "re_npost"); i < n; i++ {
		p = append(p, storage(fmt.Sprintf("re_post%d", i)))
	}
	if !cfg.NoGasRead && rapid.Bool().Draw(t, "re_gas") {
		p = append(p, Stmt{Op: "ctx", A: "GAS", Sink: "log"})
	}
	if rapid.IntRange(0, 3).Draw(t, "re_outerterm") == 0 {
		p = append(p, GenStmt(t, cfg, true))
	}
	return p
}

// GenRepeater generates a program that calls one callee several times in a row (with value), optionally touching
// storage in between: effects that are only correct the first time an account is visited in a transaction (repeated
// self-destructs of a re-funded contract, warm/cold transitions, refunds) show up on the later visits.
func GenRepeater(t *rapid.T, cfg GenCfg) Program {
	if len(cfg.CallTargets) == 0 {
		return GenProgram(t, cfg)
	}
	callee := pick(t, "rp_callee", cfg.CallTargets)
	var p Program
	for i, n := 0, rapid.IntRange(2, 4).Draw(t, "rp_n"); i < n; i++ {
		val := "0"
		if !cfg.NoValue {
			val = strconv.Itoa(rapid.IntRange(0, 3).Draw(t, "rp_val") * 500)
		}
		p = append(p, Stmt{Op: "call", A: callee, B: val, N: genGas(t), Sink: genSink(t), Data: fmt.Sprintf("%02x", rapid.IntRange(0, 3).Draw(t, "rp_cd"))})
		if rapid.IntRange(0, 2).Draw(t, "rp_between") == 0 {
			p = append(p, GenStmt(t, cfg, false))
		}
	}
	if rapid.IntRange(0, 3).Draw(t, "rp_term") == 0 {
		p = append(p, GenStmt(t, cfg, true))
	}
	return p
}

// GenDestructor generates a small contract that (after optional bookkeeping) self-destructs toward a pool address
// every time it is called.
func GenDestructor(t *rapid.T, cfg GenCfg) Program {
	var p Program
	if rapid.Bool().Draw(t, "ds_store") {
		p = append(p, Stmt{Op: "sinc", A: strconv.Itoa(rapid.IntRange(0, 3).Draw(t, "ds_slot"))})
	}
	if rapid.IntRange(0, 2).Draw(t, "ds_log") == 0 {
		p = append(p, Stmt{Op: "log", N: 1, M: 4})
	}
	return append(p, Stmt{Op: "selfdestruct", A: pick(t, "ds_ben", cfg.Addrs)})
}

#!/bin/bash
# Helper for handling seeded changes produced in scratch worktrees /tmp/wt/<ID> (+ /tmp/wt/<ID>.out).
#   seed.sh demo  <ID> <demo-file-in-.out> <dest-rel-path> <go-test-args...>   verify demo: passes clean, fails patched
#   seed.sh suite <ID>                                                         full existing suite on the patched tree (no demo)
#   seed.sh keep  <ID> <name>                                                  copy into /verif/seeded/<name>
set -u
export GOFLAGS=-mod=mod GOPROXY=off GOSUMDB=off GOTOOLCHAIN=local
cmd=$1; id=$2; wt=/tmp/wt/$id; out=/tmp/wt/$id.out
clean() { git -C $wt checkout -q -- . ; git -C $wt clean -fdq; }
case $cmd in
demo)
  demo=$3; dest=$4; shift 4
  clean; mkdir -p $wt/$(dirname $dest); cp $out/$demo $wt/$dest
  (cd $wt && go test -vet=off -count=1 "$@" > $out/verify_clean.log 2>&1); rc1=$?
  git -C $wt apply $out/patch.diff || { echo "PATCH DOES NOT APPLY"; exit 1; }
  (cd $wt && go test -vet=off -count=1 "$@" > $out/verify_patched.log 2>&1); rc2=$?
  rm -f $wt/$dest
  echo "demo $id: clean rc=$rc1 (want 0)  patched rc=$rc2 (want !=0)"
  [ $rc1 -eq 0 ] && [ $rc2 -ne 0 ] && grep -q -- "--- FAIL" $out/verify_patched.log && echo "DEMO-OK $id" || echo "DEMO-BAD $id"
  ;;
suite)
  git -C $wt status --short | grep -q '^ M' || { echo "patch not applied in $wt"; exit 1; }
  (cd $wt && go test -vet=off -count=1 -timeout 40m ./... > $out/verify_suite.log 2>&1)
  git -C $wt checkout -q -- go.mod go.sum 2>/dev/null
  echo "suite $id: failing packages/tests:"; grep -E "^(FAIL|--- FAIL|panic:)" $out/verify_suite.log | sort | uniq -c | head -20
  ;;
check)
  # seed.sh check <ID> <PROP> [tier] [patchfile]: fresh worktree of /repo HEAD + patch, run the check against it, remove the worktree
  prop=$3; tier=${4:-quick}; pf=${5:-$out/patch.diff}
  chk=/tmp/wt/chk-$id-$$
  git -C /repo worktree add -q --detach $chk HEAD || exit 2
  if git -C $chk apply $pf; then
    (cd /verif && VERIF_REPO=$chk ./check $prop --tier $tier 2>&1 | grep -v "^KNOWN-FINDING" | tail -6 | cut -c1-500)
  else
    echo "PATCH DOES NOT APPLY to current HEAD"
  fi
  git -C /repo worktree remove --force $chk; git -C /repo worktree prune
  ;;
keep)
  name=$3; d=/verif/seeded/$name; mkdir -p $d
  cp $out/patch.diff $d/; cp $out/DEMO.md $d/ 2>/dev/null
  for f in $out/*_test.go; do cp $f $d/$(basename $f).txt; done
  cp $out/meta.json $d/agent_meta.json
  echo kept $d; ls $d
  ;;
esac

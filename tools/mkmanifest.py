#!/usr/bin/env python3
"""Regenerates MANIFEST.json from checks.json (claimed properties) and properties.jsonl."""
import json, os
ROOT = os.path.dirname(os.path.dirname(os.path.abspath(__file__)))
props = [json.loads(l) for l in open(os.path.join(ROOT, "properties.jsonl"))]
checks = json.load(open(os.path.join(ROOT, "checks.json")))
na_reasons = {}
p = os.path.join(ROOT, "not_applicable.json")
if os.path.exists(p):
    na_reasons = json.load(open(p))
hooks_commits = []
hp = os.path.join(ROOT, "hooks.json")
if os.path.exists(hp):
    hooks_commits = json.load(open(hp)).get("source_commits", [])
m = {
    "version": 1,
    "setup_cmd": "./setup.sh",
    "hooks": {
        "guard": "verif",
        "enable": "no source hooks are needed: observers are installed from the harness side (BaseApp.AnteHandler() / SetAnteHandler / SetEndBlocker before LoadLatestVersion); a hook, if ever added, would live in a //go:build verif file and checks would build with -tags verif",
        "baseline_off_cmd": "cd /repo && GOFLAGS=-mod=mod go test -vet=off -count=1 -timeout 25m ./...",
        "source_commits": hooks_commits,
        "add_only": True,
    },
    "engines": [{
        "name": "harness", "path": "harness", "serves_properties": sorted(checks.keys()),
        "kind_free_text": "Go module (rapid v1.3.0 property tests, native go fuzz targets, -race stress) driving the real app through its ABCI surface; driver ./check; per-property configuration in checks.json",
    }],
    "checks": [],
    "not_applicable": [],
    "notes": "All checks: ./check <ID> [--tier quick|thorough] [--replay FILE]; exit 0 held / 1 VIOLATION / 2 inconclusive. Known findings: known_findings.json. Seeded changes: seeded/.",
}
for pr in props:
    pid = pr["id"]
    if pid in checks:
        c = checks[pid]
        m["checks"].append({
            "property_id": pid,
            "quick_cmd": "./check %s --tier quick" % pid,
            "thorough_cmd": "./check %s --tier thorough" % pid,
            "evidence_file": "evidence/%s.json" % pid,
            "replay_cmd_template": "./check %s --replay {path}" % pid,
            "engine": "harness",
            "level_claimed": {
                "category": c.get("level", "exploration"),
                "text": c.get("level_text", "generated-input search against an explicit oracle over the real application; a pass means the property held on every generated case, nothing is proved"),
                "design_ref": "DESIGN.md §4 " + pid,
            },
            "level_note": c.get("level_note", "trusts cosmos-sdk/cometbft types and the harness-side observers; see assumptions in the evidence file"),
            "technique": c.get("technique", "property-based testing (rapid)"),
        })
    else:
        m["not_applicable"].append({"property_id": pid, "reason": na_reasons.get(pid, "check not built yet (work in progress; see DESIGN.md §10 build order)")})
json.dump(m, open(os.path.join(ROOT, "MANIFEST.json"), "w"), indent=1)
print("claimed:", sorted(checks.keys()))

#!/usr/bin/env python3
"""Automatic first-order mutation sweep over the Go files the properties are anchored in.

For a sample of single-token mutations (relational operator flips, && <-> ||, big-number Add <-> Sub,
boundary constants, dropped call statements, negated conditions) the tool edits one line in a scratch worktree
of /repo HEAD, checks that the tree still builds, and runs the quick check of every property anchored in that
file against it (VERIF_REPO mode: nothing in /repo or in the committed evidence is touched). A mutant no check
objects to is a *survivor*: either equivalent / outside every property, or a gap in the checks - survivors are
listed for manual triage in mutation/automut_results.jsonl.

Usage: tools/automut.py [--per-file N] [--seed S] [--files substr,substr] [--max M] [--suite]
"""
import argparse, json, os, random, re, subprocess, sys, time, hashlib

ROOT = os.path.dirname(os.path.dirname(os.path.abspath(__file__)))
WT = "/tmp/wt/automut"
ENV = dict(os.environ, GOFLAGS="-mod=mod", GOPROXY="off", GOSUMDB="off", GOTOOLCHAIN="local")

SKIP_LINE = re.compile(r"^\s*(//|\*|/\*)|fmt\.Errorf|errorsmod\.|errors\.New|logger\.|\.Logger\(|telemetry|panic\(|Debug\(|Error\(\"|Info\(\"|`json:|protobuf:")

OPS = [
    (re.compile(r" == "), " != ", "eq->ne"),
    (re.compile(r" != "), " == ", "ne->eq"),
    (re.compile(r" <= "), " < ", "le->lt"),
    (re.compile(r" >= "), " > ", "ge->gt"),
    (re.compile(r" < "), " <= ", "lt->le"),
    (re.compile(r" > "), " >= ", "gt->ge"),
    (re.compile(r" && "), " || ", "and->or"),
    (re.compile(r" \|\| "), " && ", "or->and"),
    (re.compile(r"\.Add\("), ".Sub(", "Add->Sub"),
    (re.compile(r"\.Sub\("), ".Add(", "Sub->Add"),
    (re.compile(r"\.Cmp\(([^)]*)\) < 0"), r".Cmp(\1) <= 0", "cmp lt->le"),
    (re.compile(r"\.Cmp\(([^)]*)\) > 0"), r".Cmp(\1) >= 0", "cmp gt->ge"),
    (re.compile(r"\.Cmp\(([^)]*)\) <= 0"), r".Cmp(\1) < 0", "cmp le->lt"),
    (re.compile(r"\.Cmp\(([^)]*)\) >= 0"), r".Cmp(\1) > 0", "cmp ge->gt"),
    (re.compile(r"\.Sign\(\) > 0"), ".Sign() >= 0", "sign gt->ge"),
    (re.compile(r"\.Sign\(\) < 0"), ".Sign() <= 0", "sign lt->le"),
    (re.compile(r"\.IsZero\(\)"), ".IsNil()", None),  # placeholder never used (label None = skip)
    (re.compile(r"\bif !"), "if ", "drop-not"),
    (re.compile(r" \+ 1\b"), " + 0", "plus1->plus0"),
    (re.compile(r" - 1\b"), " - 0", "minus1->minus0"),
    (re.compile(r"\btrue\b"), "false", "true->false"),
    (re.compile(r"\bfalse\b"), "true", "false->true"),
]
CALL_STMT = re.compile(r"^\s*[A-Za-z_][A-Za-z0-9_.]*\([^=]*\)\s*$")


def sh(cmd, cwd=None, timeout=None):
    p = subprocess.run(cmd, shell=True, cwd=cwd, env=ENV, stdout=subprocess.PIPE, stderr=subprocess.STDOUT, timeout=timeout)
    return p.returncode, p.stdout.decode(errors="replace")


def anchored():
    files = {}
    for l in open(os.path.join(ROOT, "properties.jsonl")):
        j = json.loads(l)
        for f in j["anchors"]["files"]:
            if f.endswith(".go") and os.path.isfile("/repo/" + f):
                files.setdefault(f, []).append(j["id"])
    return files


def func_lines(src):
    """indices of lines inside function bodies (brace depth > 0 after a 'func' line)."""
    inside, depth, out = False, 0, []
    for i, line in enumerate(src):
        if not inside and line.startswith("func "):
            inside, depth = True, 0
        if inside:
            if depth > 0:
                out.append(i)
            depth += line.count("{") - line.count("}")
            if depth <= 0 and "{" in "".join(src[max(0, i - 40):i + 1]):
                if depth <= 0 and line.startswith("}"):
                    inside = False
    return out


def candidates(path):
    src = open(path).read().split("\n")
    cands = []
    for i in func_lines(src):
        line = src[i]
        if SKIP_LINE.search(line) or not line.strip():
            continue
        for rx, rep, label in OPS:
            if label is None:
                continue
            for m in rx.finditer(line):
                new = line[:m.start()] + rx.sub(rep, line[m.start():], count=1)
                if new != line:
                    cands.append((i, label, new))
        if CALL_STMT.match(line) and not line.strip().startswith(("defer", "go ", "return")):
            cands.append((i, "drop-call", re.match(r"^\s*", line).group(0) + "_ = 0 // " + line.strip()))
    return src, cands


def main():
    ap = argparse.ArgumentParser()
    ap.add_argument("--per-file", type=int, default=3)
    ap.add_argument("--seed", type=int, default=1)
    ap.add_argument("--files", default="")
    ap.add_argument("--max", type=int, default=10**6)
    ap.add_argument("--no-stage2", action="store_true")
    ap.add_argument("--out", default=os.path.join(ROOT, "mutation", "automut_results.jsonl"))
    a = ap.parse_args()
    rnd = random.Random(a.seed)
    os.makedirs(os.path.dirname(a.out), exist_ok=True)
    done = set()
    if os.path.exists(a.out):
        for l in open(a.out):
            j = json.loads(l)
            done.add(j["id"])
    if not os.path.exists(WT):
        rc, out = sh("git -C /repo worktree add -q --detach %s HEAD" % WT)
        if rc != 0:
            print(out)
            sys.exit(2)
    head = sh("git -C /repo rev-parse --short HEAD")[1].strip()
    sh("git checkout -q --detach %s && git checkout -q -- ." % head, cwd=WT)
    files = anchored()
    names = sorted(files)
    if a.files:
        names = [f for f in names if any(s in f for s in a.files.split(","))]
    plan = []
    for f in names:
        src, cands = candidates(os.path.join(WT, f))
        rnd.shuffle(cands)
        for c in cands[:a.per_file]:
            plan.append((f, c))
    rnd.shuffle(plan)
    n = 0
    for f, (ln, label, new) in plan:
        mid = hashlib.sha1(("%s:%d:%s:%s" % (f, ln, label, new)).encode()).hexdigest()[:10]
        if mid in done:
            continue
        if n >= a.max:
            break
        n += 1
        path = os.path.join(WT, f)
        src = open(path).read().split("\n")
        old = src[ln]
        src[ln] = new
        open(path, "w").write("\n".join(src))
        rec = {"id": mid, "file": f, "line": ln + 1, "op": label, "old": old.strip(), "new": new.strip(), "head": head, "props": files[f]}
        t0 = time.time()
        rc, out = sh("go build ./... 2>&1 | tail -5", cwd=WT, timeout=1800)
        if "cannot" in out or "undefined" in out or "declared and not used" in out or "syntax error" in out or re.search(r"\.go:\d+:\d+:", out):
            rec["result"] = "does-not-build"
        else:
            killed = None
            for pid in files[f]:
                try:
                    rc, out = sh("VERIF_REPO=%s ./check %s --tier quick" % (WT, pid), cwd=ROOT, timeout=3600)
                except subprocess.TimeoutExpired:
                    rc, out = 2, "timeout"
                if rc == 1 and ("VIOLATION property=%s" % pid) in out:
                    killed = pid
                    m = re.findall(r"^\s+\[[^\]]*\] (.*)$", out, flags=re.M)
                    rec["evidence"] = (m[0] if m else out[-300:])[:300]
                    break
                if rc == 2:
                    rec.setdefault("inconclusive", []).append(pid)
            rec["result"] = "killed" if killed else "survived"
            rec["killed_by"] = killed
            if not killed and not a.no_stage2:
                # stage 2: is the mutant in scope at all (does the existing suite accept it)? then every other check
                try:
                    rc, out = sh("go test -vet=off -count=1 -timeout 40m ./... 2>&1", cwd=WT, timeout=3000)
                except subprocess.TimeoutExpired:
                    rc, out = 1, "FAIL\ttimeout"
                sh("git checkout -q -- go.mod go.sum", cwd=WT)
                failing = [l.split()[1] for l in out.split("\n") if l.startswith("FAIL\t")]
                failing = [f for f in failing if not f.endswith("/client")]
                clash = "address already in use" in out
                rec["suite_failing"] = failing
                if failing and not clash:
                    rec["result"] = "killed-by-existing-tests"
                else:
                    if failing and clash:
                        rec["suite_note"] = "port clash in the suite run, failures not attributed"
                    allp = ["C%02d" % i for i in range(1, 21)]
                    for pid in [p for p in allp if p not in files[f]]:
                        try:
                            rc, out = sh("VERIF_REPO=%s ./check %s --tier quick" % (WT, pid), cwd=ROOT, timeout=3600)
                        except subprocess.TimeoutExpired:
                            rc, out = 2, "timeout"
                        if rc == 1 and ("VIOLATION property=%s" % pid) in out:
                            rec["result"], rec["killed_by"] = "killed-by-other-check", pid
                            m = re.findall(r"^\s+\[[^\]]*\] (.*)$", out, flags=re.M)
                            rec["evidence"] = (m[0] if m else out[-300:])[:300]
                            break
                        if rc == 2:
                            rec.setdefault("inconclusive", []).append(pid)
        rec["secs"] = round(time.time() - t0)
        sh("git checkout -q -- .", cwd=WT)
        tag = hashlib.sha1(WT.encode()).hexdigest()[:8]
        sh("rm -rf run-alt/%s/run run-alt/%s/replays run-alt/%s/evidence" % (tag, tag, tag), cwd=ROOT)
        with open(a.out, "a") as fh:
            fh.write(json.dumps(rec) + "\n")
        print("%s %-14s %s:%d %s | %s -> %s" % (rec["result"].upper(), label, f, ln + 1, rec.get("killed_by") or "", old.strip()[:60], new.strip()[:60]), flush=True)
    sh("git -C /repo worktree remove --force %s; git -C /repo worktree prune" % WT)
    sh("rm -rf run-alt/%s harness/go.alt-%s*" % (hashlib.sha1(WT.encode()).hexdigest()[:8], hashlib.sha1(WT.encode()).hexdigest()[:8]), cwd=ROOT)


if __name__ == "__main__":
    main()

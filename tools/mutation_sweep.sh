#!/bin/bash
# Runs every seeded change (seeded/<name>/patch.diff) against its property's check in a fresh scratch worktree of /repo
# HEAD and reports whether the check raises the violation. Usage: tools/mutation_sweep.sh [tier] [name-filter]
# Nothing in /repo or in the committed evidence is touched (VERIF_REPO mode of ./check).
tier=${1:-quick}; filter=${2:-}
cd "$(dirname "$0")/.."
pass=0; miss=0
for d in seeded/*/; do
  name=$(basename $d)
  [ -n "$filter" ] && [[ "$name" != *$filter* ]] && continue
  prop=$(python3 -c "import json;print(json.load(open('$d/meta.json'))['property'])")
  wt=/tmp/wt/sweep-$name-$$
  git -C /repo worktree add -q --detach $wt HEAD || { echo "$name: cannot create worktree"; continue; }
  if ! git -C $wt apply $PWD/$d/patch.diff 2>/dev/null; then
    echo "SKIP   $name ($prop): patch no longer applies to /repo HEAD"
  else
    VERIF_REPO=$wt ./check $prop --tier $tier > /tmp/wt/sweep-$name.log 2>&1; rc=$?
    if [ $rc -eq 1 ] && grep -q "^VIOLATION property=$prop" /tmp/wt/sweep-$name.log; then
      echo "CAUGHT $name ($prop, $tier)"; pass=$((pass+1))
    else
      echo "MISSED $name ($prop, $tier) rc=$rc"; miss=$((miss+1))
    fi
  fi
  git -C /repo worktree remove --force $wt; git -C /repo worktree prune
done
for d in run-alt/*; do [ "$(basename $d)" = "1a0584ae" ] || rm -rf $d; done  # (1a0584ae = tools/automut.py scratch tree, may be running)
echo "caught=$pass missed=$miss"

#!/usr/bin/env python3
"""Regenerates the seeded-change table of DESIGN.md (between the SEEDTABLE markers) from seeded/*/meta.json."""
import json, os, re
ROOT = os.path.dirname(os.path.dirname(os.path.abspath(__file__)))
rows = []
for name in sorted(os.listdir(os.path.join(ROOT, "seeded"))):
    m = json.load(open(os.path.join(ROOT, "seeded", name, "meta.json")))
    res = m["verified_by_me"]["check_result"]
    first = "caught as-is" if res.lower().startswith("caught") else "missed first, caught after strengthening"
    what = (m.get("summary") or "").replace("|", "/").replace("\n", " ")
    rows.append("| `%s` | %s | %d | %s | %s |" % (name, m["property"], m.get("round", 1), what[:170], first))
table = "| Seeded change | Prop. | Round | What it does | Quick tier |\n|---|---|---|---|---|\n" + "\n".join(rows)
p = os.path.join(ROOT, "DESIGN.md")
s = open(p).read()
s = re.sub(r"<!-- SEEDTABLE:BEGIN -->.*<!-- SEEDTABLE:END -->", "<!-- SEEDTABLE:BEGIN -->\n" + table + "\n<!-- SEEDTABLE:END -->", s, flags=re.S)
open(p, "w").write(s)
print(len(rows), "seeded changes")

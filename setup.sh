#!/bin/sh
# Offline setup: warm the Go build cache with the harness test binaries (plain and race-instrumented).
set -e
cd "$(dirname "$0")/harness"
export GOFLAGS=-mod=mod GOPROXY=off GOSUMDB=off GOTOOLCHAIN=local
[ -f go.sum ] || cp /repo/go.sum go.sum
mkdir -p bin
go test -c -vet=off -o bin/props.test ./props
go test -c -vet=off -race -o bin/props.race.test ./props
